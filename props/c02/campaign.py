from campaigns_util import B

SPEC = {
    "pkg": "props/c02", "level": "exploration", "bins": ["ts-server"],
    "rule": ("rapid state machine over one real ts-server: writes (partial rows, duplicates inside a batch, late data, two shard groups), forced flush, "
             "harness-triggered merge / level compaction / full compaction passes (hook H4, the planner is the real one), clean restart; after every action a "
             "generated selection (field subset x time range with ends on/inside/outside data x asc/desc x grouped/ungrouped x tag filter) must equal the "
             "last-write-wins replay of the acknowledged writes (sorted by time, one row per (series,time)). Non-trivial: the read range holds cells of >= 2 flush "
             "generations and some (series,time) was written in >= 2 of them; distinct by (set of read shapes x layouts, op list). "
             "Library-level companion (lib_* campaigns, in-process, exported API only, thousands of cases per second): generated records (all four column types, "
             "null patterns none/sparse/dense/all, fields of two records same/subset/independent/disjoint, built by appending or as SliceFromRecord views) against "
             "a last-write-wins fold time -> field -> value, checked in both directions (rows strictly ordered, no timestamp twice, no cell invented, stale, "
             "dropped or nulled) together with the internal consistency of every returned record (null bitmap vs NilCount vs stored values, schema order). "
             "lib_merge_pair: MergeRecord/MergeRecordDescend/MergeRecordLimitRows[Descend] of a newer over an older record (placement interleaved/touching/"
             "disjoint/contained/same times, 1..300 rows, timestamps up to the ends of the legal range; limit = sum as the aggregate cursor passes it, or cutting, "
             "then drained with the returned positions) and the fold "
             "of 2..4 out-of-order records as tsmMergeCursor does; non-trivial = >= 1 equal timestamp and a field present in only one of the two. "
             "lib_cursor_merge: the memtable record over the stream of file records through a statement-by-statement mirror of seriesCursor.nextInner/mergeData "
             "(MergeRecordByMaxTimeOfOldRec, SliceFromRecord, KickNilRow with the cursor's ColAux), optionally with the tsmMergeCursor stage underneath (merged "
             "out-of-order record over the ordered file records, its batches feeding the series cursor), max rows per batch 1..1000, ascending and descending; "
             "non-trivial = equal timestamp with a field valued in only one of the two rows. "
             "lib_sort_dedup: ColumnSortHelper.Sort of a write-order record (duplicate timestamps, any order, helper fresh or used) and of concatenations of "
             "records with different schemas built as ChunkIterators.Next / shelf reader / wal reader build them (Record.Merge, AppendRec; the concatenation "
             "itself is compared row by row); non-trivial = duplicate timestamps (and a schema mismatch for concatenations). "
             "lib_memtable: engine/mutable MemTable: WriteRows batches over 2 measurements x 3 series with partial rows and repeated timestamps, snapshot "
             "switch, MemTables.Values (active over snapshot, time range, field subset, both orders) + KickNilRow, flush walk (ApplyConcurrency, GetAllSid, "
             "chunk.SortRecord, CheckRecord, SplitRecordByTime at generated last-flushed times); non-trivial = a series written out of order with a repeated "
             "timestamp. lib_ooo_column_merge: record.MergeHelper + immutable.MergeTimes/FillNilCol as merge_performer/unordered_reader use them: 0..3 "
             "out-of-order columns (oldest first, possibly lacking the column) folded over an all-null column, then over the ordered column; non-trivial = "
             "an out-of-order time equal to an ordered one. Distinct = hash of the whole case"),
    "assumptions": ["the instants of reorganisation are chosen by the harness (hook H4) in addition to the server's own 10 s ticker",
                    "HTTP 204 is the acknowledgement; new series are awaited in show series before the first read (index visibility lag)",
                    "lib: inputs of the record merges are sorted by time without duplicates and non-empty, field names sorted with time last, one type per "
                    "field name (what Record.Copy, the file readers and the sort helper hand on); the first record argument is the newer one",
                    "lib: file records reaching the series cursor hold at most max-rows rows and follow each other in time; the memtable record is one record",
                    "lib: out-of-order columns are added oldest file first (UnorderedReader.AddFiles order); integers written through influx.Row stay within "
                    "+-2^53 (float64 transport, subject of C06)",
                    "lib: a row whose selected fields are all null may be present or absent in a merge result (the readers drop it with KickNilRow); "
                    "SortRecordIfNeeded (optional compaction repair) and the row-based record.SortHelper (log store) are not on the C02 paths and not checked"],
    "campaigns": [
        {"name": "layout_histories", "run": "^TestLayoutHistories$", "quick": B(4, 10, 900, steps=20, shrinktime="60s"),
         "thorough": B(12, 14, 3400, steps=40, shrinktime="180s")},
        {"name": "lib_merge_pair", "run": "^TestLibMergePair$", "quick": B(40000, 2, 300, shrinktime="10s"), "thorough": B(1500000, 4, 1500)},
        {"name": "lib_cursor_merge", "run": "^TestLibCursorMerge$", "quick": B(40000, 2, 300, shrinktime="10s"), "thorough": B(2500000, 3, 1500)},
        {"name": "lib_sort_dedup", "run": "^TestLibSortDedup$", "quick": B(40000, 2, 300, shrinktime="10s"), "thorough": B(3000000, 3, 1500)},
        {"name": "lib_memtable", "run": "^TestLibMemtable$", "quick": B(8000, 3, 300, shrinktime="10s"), "thorough": B(600000, 4, 1500)},
        {"name": "lib_ooo_column_merge", "run": "^TestLibColumnMerge$", "quick": B(40000, 2, 300, shrinktime="10s"), "thorough": B(3000000, 2, 1500)},
    ],
}

META = {
    "engine": "bb-server", "also": ["lib-rapid"],
    "technique": "model-based stateful PBT (rapid) against the real server, last-write-wins map as reference model; in-process rapid properties on the record "
                 "merge / sort / memtable code against the same fold",
    "text": ("Generated write/flush/merge/compaction/restart histories with a generated read after every step, compared exactly with a last-write-wins model. "
             "A library-level companion drives the data-structure code those paths share (record merges, sort + de-duplication, memtable, column merge of "
             "ordered with out-of-order data) with generated records against the same fold. "
             "Exploration: samples histories, layouts and record shapes (counted in the evidence), no exhaustiveness."),
    "note": ("Trusts the harness' model and result comparison; layouts reached are those the real planner produces for the generated file sets. The library "
             "campaigns call exported functions in the patterns read from their callers (mirrored loops are copies of engine code, not the engine code itself)."),
}
