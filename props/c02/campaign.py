from campaigns_util import B

SPEC = {
    "pkg": "props/c02", "level": "exploration", "bins": ["ts-server"],
    "rule": ("rapid state machine over one real ts-server: writes (partial rows, duplicates inside a batch, late data, two shard groups), forced flush, "
             "harness-triggered merge / level compaction / full compaction passes (hook H4, the planner is the real one), clean restart; after every action a "
             "generated selection (field subset x time range with ends on/inside/outside data x asc/desc x grouped/ungrouped x tag filter) must equal the "
             "last-write-wins replay of the acknowledged writes (sorted by time, one row per (series,time)). Non-trivial: the read range holds cells of >= 2 flush "
             "generations and some (series,time) was written in >= 2 of them; distinct by (set of read shapes x layouts, op list)"),
    "assumptions": ["the instants of reorganisation are chosen by the harness (hook H4) in addition to the server's own 10 s ticker",
                    "HTTP 204 is the acknowledgement; new series are awaited in show series before the first read (index visibility lag)"],
    "campaigns": [
        {"name": "layout_histories", "run": "^TestLayoutHistories$", "quick": B(4, 10, 900, steps=20, shrinktime="60s"),
         "thorough": B(60, 14, 3400, steps=40, shrinktime="180s")},
    ],
}

META = {
    "engine": "bb-server",
    "technique": "model-based stateful PBT (rapid) against the real server, last-write-wins map as reference model",
    "text": ("Generated write/flush/merge/compaction/restart histories with a generated read after every step, compared exactly with a last-write-wins model. "
             "Exploration: samples histories and layouts (counted in the evidence), no exhaustiveness."),
    "note": "Trusts the harness' model and result comparison; layouts reached are those the real planner produces for the generated file sets.",
}
