package c12

// Query schema and logical plan codecs: query.EncodeQuerySchema/DecodeQuerySchema (the field list travels
// as text and is read with hybridqp.ParseFields) and executor.MarshalBinary/UnmarshalBinary for the
// operator tree (logic_plan_codec.go).

import (
	"encoding/json"
	"fmt"
	"reflect"
	"sort"
	"strings"
	"testing"

	"github.com/openGemini/openGemini/engine/executor"
	"github.com/openGemini/openGemini/engine/hybridqp"
	"github.com/openGemini/openGemini/lib/util/lifted/influx/influxql"
	"github.com/openGemini/openGemini/lib/util/lifted/influx/query"
	internal "github.com/openGemini/openGemini/lib/util/lifted/influx/query/proto"
	"google.golang.org/protobuf/proto"
	"pgregory.net/rapid"
	"verif/internal/ev"
)

type colSpec struct {
	Name string
	Type influxql.DataType
}

var schemaCols = []colSpec{
	{"f_float", influxql.Float}, {"f_int", influxql.Integer}, {"usage", influxql.Float}, {"my field", influxql.Float},
	{"select", influxql.Integer}, {"f_str", influxql.String}, {"f_bool", influxql.Boolean}, {"t_host", influxql.Tag}, {"a.b", influxql.Float},
	{"quo\"te", influxql.Integer},
}

// fieldDesc: one SELECT field as text in front-end syntax with typed references (what the planner holds
// after type mapping), plus an optional alias.
type planCase struct {
	Kind     string   `json:"kind"`
	Fields   []string `json:"fields"`  // "expr" or "expr AS alias"
	Names    []string `json:"names"`   // column names
	PushDown bool     `json:"push_down"`
	Dims     []string `json:"dims,omitempty"`
	Nodes    []nodeDesc `json:"nodes"` // bottom-up chain; Merge/SortMerge duplicate the chain below them
}

type nodeDesc struct {
	Op     string `json:"op"`
	EType  int    `json:"etype,omitempty"`
	Prod   bool   `json:"producer,omitempty"`
	Limit  int    `json:"limit,omitempty"`
	Offset int    `json:"offset,omitempty"`
	LType  int    `json:"ltype,omitempty"`
}

func genTypedRef(g *gen, numeric bool) string {
	for {
		cs := rapid.SampledFrom(schemaCols).Draw(g.t, "col")
		if numeric && cs.Type != influxql.Float && cs.Type != influxql.Integer {
			continue
		}
		return g.identText(cs.Name) + "::" + cs.Type.String()
	}
}

func genSchemaField(g *gen) string {
	var s string
	switch g.pick("sfKind", 8) {
	case 0, 1:
		s = genTypedRef(g, false)
	case 2, 3, 4:
		s = rapid.SampledFrom([]string{"count", "sum", "mean", "min", "max", "first", "last"}).Draw(g.t, "agg") + "(" + genTypedRef(g, true) + ")"
	case 5:
		s = "percentile(" + genTypedRef(g, true) + ", " + rapid.SampledFrom([]string{"90", "50", "99.9", "0.5"}).Draw(g.t, "pct") + ")"
	case 6:
		op := rapid.SampledFrom([]string{"+", "-", "*", "/"}).Draw(g.t, "sfop")
		s = genTypedRef(g, true) + " " + op + " " + rapid.SampledFrom([]string{"2", "2.5", "0.001", genTypedRef(g, true)}).Draw(g.t, "sfrhs")
	default:
		s = "(" + genTypedRef(g, true) + " + 1) * " + rapid.SampledFrom([]string{"3", "0.25", "100.5"}).Draw(g.t, "sfmul")
	}
	if g.chance("sfalias", 35) {
		s += " AS " + g.identText(g.identValueNoDot())
	}
	return s
}

var unaryOps = []string{"IndexScan", "Reader", "TagSubset", "Aggregate", "CountDistinct", "TagSetAggregate", "Limit", "Filter", "Distinct", "Interval", "Fill", "Align", "Project", "Exchange", "HashMerge", "HashAgg", "SparseIndexScan", "ColumnStoreReader", "Merge", "SortMerge", "OrderBy", "GroupBy", "SubQuery"}

func genPlanCase(t *rapid.T, c *ev.Case) planCase {
	g := &gen{t: t, c: c, d: dialect{yacc: true}, params: map[string]interface{}{}}
	pc := planCase{Kind: "plan_codec", PushDown: rapid.Bool().Draw(t, "pushDown")}
	n := rapid.IntRange(1, 4).Draw(t, "nfields")
	for i := 0; i < n; i++ {
		pc.Fields = append(pc.Fields, genSchemaField(g))
	}
	pc.Dims = rapid.SliceOfN(rapid.SampledFrom([]string{"t_host", "region", "my tag"}), 0, 2).Draw(t, "dims")
	leaf := rapid.SampledFrom([]string{"Series", "Series", "ReaderLeaf", "ColumnStoreReaderLeaf"}).Draw(t, "leaf")
	pc.Nodes = append(pc.Nodes, nodeDesc{Op: leaf})
	k := rapid.IntRange(0, 7).Draw(t, "chainLen")
	for i := 0; i < k; i++ {
		nd := nodeDesc{Op: rapid.SampledFrom(unaryOps).Draw(t, "op")}
		switch nd.Op {
		case "Exchange", "HashMerge", "HashAgg":
			nd.EType = rapid.IntRange(0, 6).Draw(t, "etype")
			nd.Prod = rapid.Bool().Draw(t, "producer")
		case "Limit":
			nd.Limit = rapid.IntRange(0, 100000).Draw(t, "limit")
			nd.Offset = rapid.IntRange(0, 1000).Draw(t, "offset")
			nd.LType = rapid.IntRange(0, 2).Draw(t, "ltype")
		}
		pc.Nodes = append(pc.Nodes, nd)
	}
	return pc
}

func buildSchema(pc planCase) (*executor.QuerySchema, *query.ProcessorOptions, string, error) {
	st, err := yaccSelect("SELECT "+strings.Join(pc.Fields, ", ")+" FROM m", nil)
	if err != nil {
		return nil, nil, "fields rejected: " + err.Error(), nil
	}
	names := pc.Names
	if len(names) == 0 {
		for _, f := range st.Fields {
			names = append(names, f.Name())
		}
	}
	opt := &query.ProcessorOptions{Dimensions: pc.Dims, ChunkSize: 1024}
	if pc.PushDown {
		opt.HintType = hybridqp.QueryPushDown
	}
	var schema *executor.QuerySchema
	var perr error
	func() {
		defer func() {
			if r := recover(); r != nil {
				perr = fmt.Errorf("schema construction panics: %v", r)
			}
		}()
		schema = executor.NewQuerySchema(st.Fields, names, opt, nil)
		m := &influxql.Measurement{Name: "m", Database: "db0", RetentionPolicy: "rp0"}
		schema.AddTable(m, schema.MakeRefs())
	}()
	if perr != nil {
		return nil, nil, perr.Error(), nil
	}
	return schema, opt, "", nil
}

func buildPlan(pc planCase, schema *executor.QuerySchema) (node hybridqp.QueryNode, rejected string) {
	defer func() {
		if r := recover(); r != nil {
			node, rejected = nil, fmt.Sprintf("plan construction panics: %v", r)
		}
	}()
	var build func(upto int) hybridqp.QueryNode
	build = func(upto int) hybridqp.QueryNode {
		var cur hybridqp.QueryNode
		for i := 0; i <= upto; i++ {
			nd := pc.Nodes[i]
			switch nd.Op {
			case "Series":
				cur = executor.NewLogicalSeries(schema)
			case "ReaderLeaf":
				cur = executor.NewLogicalReader(nil, schema)
			case "ColumnStoreReaderLeaf":
				cur = executor.NewLogicalColumnStoreReader(nil, schema)
			case "IndexScan":
				cur = executor.NewLogicalIndexScan(cur, schema)
			case "Reader":
				cur = executor.NewLogicalReader(cur, schema)
			case "TagSubset":
				cur = executor.NewLogicalTagSubset(cur, schema)
			case "Aggregate":
				cur = executor.NewLogicalAggregate(cur, schema)
			case "CountDistinct":
				cur = executor.NewCountDistinctAggregate(cur, schema)
			case "TagSetAggregate":
				cur = executor.NewLogicalTagSetAggregate(cur, schema)
			case "Limit":
				cur = executor.NewLogicalLimit(cur, schema, executor.LimitTransformParameters{Limit: nd.Limit, Offset: nd.Offset, LimitType: hybridqp.LimitType(nd.LType)})
			case "Filter":
				cur = executor.NewLogicalFilter(cur, schema)
			case "Distinct":
				cur = executor.NewLogicalDistinct(cur, schema)
			case "Interval":
				cur = executor.NewLogicalInterval(cur, schema)
			case "Fill":
				cur = executor.NewLogicalFill(cur, schema)
			case "Align":
				cur = executor.NewLogicalAlign(cur, schema)
			case "Project":
				cur = executor.NewLogicalProject(cur, schema)
			case "Exchange":
				ex := executor.NewLogicalExchange(cur, executor.ExchangeType(nd.EType), []hybridqp.Trait{}, schema)
				if nd.Prod {
					ex.ToProducer()
				}
				cur = ex
			case "HashMerge":
				hm := executor.NewLogicalHashMerge(cur, schema, executor.ExchangeType(nd.EType), []hybridqp.Trait{})
				if nd.Prod {
					hm.ToProducer()
				}
				cur = hm
			case "HashAgg":
				ha := executor.NewLogicalHashAgg(cur, schema, executor.ExchangeType(nd.EType), []hybridqp.Trait{})
				if nd.Prod {
					ha.ToProducer()
				}
				cur = ha
			case "SparseIndexScan":
				cur = executor.NewLogicalSparseIndexScan(cur, schema)
			case "ColumnStoreReader":
				cur = executor.NewLogicalColumnStoreReader(cur, schema)
			case "Merge":
				cur = executor.NewLogicalMerge([]hybridqp.QueryNode{cur, build(i - 1)}, schema)
			case "SortMerge":
				cur = executor.NewLogicalSortMerge([]hybridqp.QueryNode{cur, build(i - 1)}, schema)
			case "OrderBy":
				cur = executor.NewLogicalOrderBy(cur, schema)
			case "GroupBy":
				cur = executor.NewLogicalGroupBy(cur, schema)
			case "SubQuery":
				cur = executor.NewLogicalSubQuery(cur, schema)
			default:
				panic("unknown op " + nd.Op)
			}
		}
		return cur
	}
	return build(len(pc.Nodes) - 1), ""
}

// private reads a scalar unexported field (e.g. eType, eRole, isCountDistinct) for comparison.
func private(n hybridqp.QueryNode, name string) (string, bool) {
	v := reflect.ValueOf(n)
	if v.Kind() == reflect.Ptr {
		v = v.Elem()
	}
	f := v.FieldByName(name)
	if !f.IsValid() {
		return "", false
	}
	switch f.Kind() {
	case reflect.Bool:
		return fmt.Sprint(f.Bool()), true
	case reflect.Int, reflect.Int8, reflect.Int16, reflect.Int32, reflect.Int64:
		return fmt.Sprint(f.Int()), true
	case reflect.Uint, reflect.Uint8, reflect.Uint16, reflect.Uint32, reflect.Uint64:
		return fmt.Sprint(f.Uint()), true
	}
	return "", false
}

func comparePlans(a, b hybridqp.QueryNode, path string) error {
	if a == nil || b == nil {
		if (a == nil) != (b == nil) {
			return fmt.Errorf("%s: nil vs non-nil node", path)
		}
		return nil
	}
	if reflect.TypeOf(a) != reflect.TypeOf(b) {
		return fmt.Errorf("%s: node %T came back as %T", path, a, b)
	}
	path += "/" + a.String()
	for _, f := range []string{"eType", "eRole", "isCountDistinct", "aggType"} {
		va, ok := private(a, f)
		if !ok {
			continue
		}
		vb, _ := private(b, f)
		if va != vb {
			return fmt.Errorf("%s: %s %s vs %s", path, f, va, vb)
		}
	}
	if la, ok := a.(*executor.LogicalLimit); ok {
		lb := b.(*executor.LogicalLimit)
		if la.LimitPara != lb.LimitPara {
			return fmt.Errorf("%s: limit parameters %+v vs %+v", path, la.LimitPara, lb.LimitPara)
		}
	}
	// output row type (derived from the schema on both sides)
	ra, rb := a.RowDataType(), b.RowDataType()
	if (ra == nil) != (rb == nil) {
		return fmt.Errorf("%s: row type nil vs non-nil", path)
	}
	if ra != nil {
		fa, fb := append(influxql.Fields{}, ra.Fields()...), append(influxql.Fields{}, rb.Fields()...)
		sort.SliceStable(fa, func(i, j int) bool { return fa[i].String() < fa[j].String() })
		sort.SliceStable(fb, func(i, j int) bool { return fb[i].String() < fb[j].String() })
		if err := sameTree(fa, fb, looseEq); err != nil {
			return fmt.Errorf("%s: row type %v", path, err)
		}
	}
	ca, cb := a.Children(), b.Children()
	if len(ca) != len(cb) {
		return fmt.Errorf("%s: %d children vs %d", path, len(ca), len(cb))
	}
	for i := range ca {
		if err := comparePlans(ca[i], cb[i], fmt.Sprintf("%s[%d]", path, i)); err != nil {
			return err
		}
	}
	return nil
}

func compareSchemas(a, b hybridqp.Catalog) error {
	if err := sameTree(a.GetColumnNames(), b.GetColumnNames(), looseEq); err != nil {
		return fmt.Errorf("schema column names %v", err)
	}
	if err := sameTree(a.GetQueryFields(), b.GetQueryFields(), looseEq); err != nil {
		return fmt.Errorf("schema query fields %v", err)
	}
	if err := sameTree(a.GetUnnests(), b.GetUnnests(), looseEq); err != nil {
		return fmt.Errorf("schema unnests %v", err)
	}
	if a.HasCall() != b.HasCall() || a.HasMath() != b.HasMath() || a.HasString() != b.HasString() || len(a.Calls()) != len(b.Calls()) {
		return fmt.Errorf("schema summary differs: calls %d/%v math %v vs calls %d/%v math %v", len(a.Calls()), a.HasCall(), a.HasMath(), len(b.Calls()), b.HasCall(), b.HasMath())
	}
	return nil
}

func checkPlan(pc planCase) (schema *executor.QuerySchema, plan hybridqp.QueryNode, rejected string, err error) {
	schema, opt, rejected, err := buildSchema(pc)
	if err != nil || rejected != "" {
		return nil, nil, rejected, err
	}
	// schema message
	pbBytes, err := proto.Marshal(query.EncodeQuerySchema(schema))
	if err != nil {
		return schema, nil, "", fmt.Errorf("marshal schema: %v", err)
	}
	pb := &internal.QuerySchema{}
	if err := proto.Unmarshal(pbBytes, pb); err != nil {
		return schema, nil, "", fmt.Errorf("unmarshal schema: %v", err)
	}
	cat, err := query.DecodeQuerySchema(pb, opt)
	if err != nil {
		return schema, nil, "", fmt.Errorf("DecodeQuerySchema rejects what EncodeQuerySchema wrote (fields %q): %v", clip(pb.QueryFields), err)
	}
	if err := compareSchemas(schema, cat); err != nil {
		return schema, nil, "", fmt.Errorf("%v [fields on the wire: %q]", err, clip(pb.QueryFields))
	}
	// operator tree
	plan, rejected = buildPlan(pc, schema)
	if rejected != "" {
		return schema, nil, rejected, nil
	}
	buf, err := executor.MarshalBinary(plan)
	if err != nil {
		return schema, plan, "", fmt.Errorf("MarshalBinary(%s): %v", plan.String(), err)
	}
	got, err := executor.UnmarshalBinary(buf, cat)
	if err != nil {
		return schema, plan, "", fmt.Errorf("UnmarshalBinary rejects what MarshalBinary wrote: %v", err)
	}
	if err := comparePlans(plan, got, ""); err != nil {
		return schema, plan, "", err
	}
	return schema, plan, "", nil
}

func TestPlanCodec(t *testing.T) {
	rapid.Check(t, ev.Prop(prop, "plan_codec", func(t *rapid.T, c *ev.Case) {
		pc := genPlanCase(t, c)
		schema, plan, rejected, err := checkPlan(pc)
		if rejected != "" {
			c.Class("rejected")
			c.Class("rejected:" + strings.SplitN(rejected, ":", 2)[0])
			return
		}
		c.Class("accepted")
		if schema != nil {
			var trees []influxql.Expr
			for _, f := range schema.GetQueryFields() {
				trees = append(trees, f.Expr)
			}
			recordTree(c, mergeStats(trees))
			for _, cls := range knownClassesOf(trees) {
				if !classIncluded(cls) {
					c.Excluded("tree:" + cls)
					return
				}
			}
		}
		for _, nd := range pc.Nodes {
			c.Class("plan=" + nd.Op)
		}
		if pc.PushDown {
			c.Class("plan:push_down_hint")
		}
		if err != nil {
			if _, inc := err.(ev.InconclusiveError); inc {
				t.Fatalf("VERIF-INCONCLUSIVE %v", err)
			}
			c.Failf(t, prop, pc, "%v", err)
		}
		_ = plan
		if len(pc.Nodes) >= 3 {
			c.Nontrivial(ev.Hash(pc))
			c.Sample(map[string]any{"kind": "plan_codec", "fields": pc.Fields, "plan": plan.String(), "nodes": len(pc.Nodes)})
		}
	}))
}

func replayPlan(raw json.RawMessage) error {
	var pc planCase
	if err := json.Unmarshal(raw, &pc); err != nil {
		return ev.InconclusiveError(err.Error())
	}
	_, _, rejected, err := checkPlan(pc)
	if rejected != "" {
		return ev.InconclusiveError("recorded case cannot be built any more: " + rejected)
	}
	return err
}
