from campaigns_util import B

SPEC = {
    "pkg": "props/c12", "level": "exploration",
    "rule": ("InfluxQL text is generated from the grammar (all binary/unary operators and nestings, redundant parentheses, identifiers needing quotes, "
             "strings with quotes/backslashes/newlines, int64 limits, floats, durations, regexes with slashes, calls of any arity, bound parameters) and parsed by "
             "the front-end (yacc) parser or by ParseExpr; what the parser accepts is printed and read back the way the store does it (ParseExpr for conditions - both as parsed and as left by query.Compile -, "
             "hybridqp.ParseFields for field lists, ParseSource/ParseStatement for sources, the front end itself for stored statements) and must give the same tree "
             "(parentheses nodes transparent, literal types exact). ProcessorOptions derived from generated statements, RemoteQuery, query schema + operator trees and "
             "result chunks (all column types, null maps, tags, dims) go through Marshal/Unmarshal and must come back equal on every field the wire message carries. "
             "Non-trivial: expression depth >= 3 or a quoted identifier / escaped string / regex / integral float (text campaigns); any accepted statement, option set, "
             "plan of >= 3 nodes, chunk with rows and columns (codec campaigns); distinct = hash of the generated case. Known-defect classes are left out by a syntactic "
             "predicate on the first parse tree and counted under excluded_by_construction."),
    "assumptions": [
        "the front end parses as httpd.Handler.getSqlQuery does (NewParser + NewYyParser on its scanner, bound parameters as the handler converts them)",
        "options are derived with query.NewProcessorOptionsStmt as the planner does; the remaining scalar fields take arbitrary values",
        "structural equality ignores unexported AST fields (depth caches) and treats nil and empty slices/maps alike",
    ],
    "campaigns": [
        {"name": "expr_rd", "run": "^TestExprRD$", "quick": B(120000, 2), "thorough": B(2500000, 1, 3000)},
        {"name": "cond_ship", "run": "^TestCondShip$", "quick": B(100000, 2), "thorough": B(2000000, 3, 3000)},
        {"name": "planned_cond", "run": "^TestPlannedCond$", "quick": B(80000, 2), "thorough": B(1500000, 2, 3000)},
        {"name": "fields_ship", "run": "^TestFieldsShip$", "quick": B(120000, 2), "thorough": B(2500000, 2, 3000)},
        {"name": "stmt_rt", "run": "^TestStmtRoundTrip$", "quick": B(60000, 2), "thorough": B(800000, 2, 3000)},
        {"name": "opt_codec", "run": "^TestOptCodec$", "quick": B(40000, 2), "thorough": B(500000, 2, 3000)},
        {"name": "remote_query", "run": "^TestRemoteQuery$", "quick": B(30000, 1), "thorough": B(400000, 1, 3000)},
        {"name": "plan_codec", "run": "^TestPlanCodec$", "quick": B(60000, 1), "thorough": B(800000, 1, 3000)},
        {"name": "chunk_codec", "run": "^TestChunkCodec$", "quick": B(20000, 2), "thorough": B(200000, 2, 3000)},
    ],
    "fuzz": [{"target": "FuzzExprRD", "seconds": 240}],
}

META = {
    "engine": "lib-rapid",
    "technique": "property-based round-trip testing (grammar-driven text generators, print/re-parse with the parser the receiving side uses; codec round trips of options, plans and chunks)",
    "text": ("Text generated from the InfluxQL grammar is parsed, printed and read back by the parser the receiving side really uses; the trees must be equal including literal types. "
             "Query options, remote-query messages, schemas/operator trees and result chunks are marshalled and unmarshalled and must come back equal. "
             "Exploration: finds counterexamples, never proves absence."),
    "note": ("Trusts the harness' structural comparison (exported AST fields only; ParenExpr transparent) and, for the codecs, that the wire message definition lists what has to travel. "
             "Known-defect classes (see known_findings) are excluded from the generators by predicate; their replays run on every invocation."),
}
