package c12

// Result chunks (store -> sql): executor.ChunkImpl Marshal/Unmarshal (chunk_codec.gen.go), sent as
// rpc.Message{ChunkResponseMessage}.

import (
	"encoding/json"
	"fmt"
	"math"
	"reflect"
	"strconv"
	"testing"

	"github.com/openGemini/openGemini/engine/executor"
	"github.com/openGemini/openGemini/engine/hybridqp"
	"github.com/openGemini/openGemini/lib/spdy/rpc"
	"github.com/openGemini/openGemini/lib/util/lifted/influx/influxql"
	"pgregory.net/rapid"
	"verif/internal/ev"
)

type colDesc struct {
	Type    string   `json:"type"` // float integer string boolean floattuple
	NilCol  bool     `json:"nil_col,omitempty"`
	Present []bool   `json:"present"`          // per row: holds a value
	Build   string   `json:"build"`            // row | bulk | runs : which bitmap API fills the null map
	Floats  []string `json:"floats,omitempty"` // hex bits, one per present row
	Ints    []int64  `json:"ints,omitempty"`
	Strs    []string `json:"strs,omitempty"`
	Bools   []bool   `json:"bools,omitempty"`
	Tuples  [][]string `json:"tuples,omitempty"`
	Times   []int64  `json:"times,omitempty"` // column times (selectors), optional
}

type chunkDesc struct {
	Kind     string        `json:"kind"`
	Name     string        `json:"name"`
	Times    []int64       `json:"times"`
	Tags     [][][2]string `json:"tags"`
	TagIndex []int         `json:"tag_index"`
	Interval []int         `json:"interval_index"`
	Cols     []colDesc     `json:"cols"`
	Dims     []colDesc     `json:"dims,omitempty"`
}

var colTypes = map[string]influxql.DataType{"float": influxql.Float, "integer": influxql.Integer, "string": influxql.String, "boolean": influxql.Boolean, "floattuple": influxql.FloatTuple}

func genPresent(t *rapid.T, n int) ([]bool, string) {
	shape := rapid.SampledFrom([]string{"all", "none", "random", "alternate", "edges", "runs", "sparse"}).Draw(t, "nullShape")
	p := make([]bool, n)
	for i := range p {
		switch shape {
		case "all":
			p[i] = true
		case "none":
		case "random":
			p[i] = rapid.Bool().Draw(t, "present")
		case "alternate":
			p[i] = i%2 == 0
		case "edges":
			p[i] = i != 0 && i != n-1
		case "runs":
			p[i] = (i/9)%2 == 0
		case "sparse":
			p[i] = i%17 == 3
		}
	}
	return p, shape
}

func hexBits(f float64) string { return strconv.FormatUint(math.Float64bits(f), 16) }

func genFloatBits(t *rapid.T) string {
	f := rapid.OneOf(rapid.Float64(), rapid.SampledFrom([]float64{0, math.Copysign(0, -1), math.NaN(), math.Inf(1), math.Inf(-1), math.MaxFloat64, math.SmallestNonzeroFloat64, 1.5}), rapid.Map(rapid.Uint64(), math.Float64frombits)).Draw(t, "f")
	return hexBits(f)
}

func genCol(t *rapid.T, n int, types []string) (colDesc, string) {
	cd := colDesc{Type: rapid.SampledFrom(types).Draw(t, "colType")}
	var shape string
	cd.Present, shape = genPresent(t, n)
	cd.Build = rapid.SampledFrom([]string{"row", "bulk", "runs"}).Draw(t, "build")
	k := 0
	for _, p := range cd.Present {
		if p {
			k++
		}
	}
	for i := 0; i < k; i++ {
		switch cd.Type {
		case "float":
			cd.Floats = append(cd.Floats, genFloatBits(t))
		case "integer":
			cd.Ints = append(cd.Ints, rapid.OneOf(rapid.Int64(), rapid.SampledFrom(hostileI64)).Draw(t, "i"))
		case "string":
			cd.Strs = append(cd.Strs, rapid.OneOf(rapid.String(), rapid.SampledFrom([]string{"", "a", "\x00", "温度", "a,b=c d"}), rapid.StringN(0, 300, -1)).Draw(t, "s"))
		case "boolean":
			cd.Bools = append(cd.Bools, rapid.Bool().Draw(t, "b"))
		case "floattuple":
			w := rapid.IntRange(0, 3).Draw(t, "tupleWidth")
			tu := make([]string, w)
			for j := range tu {
				tu[j] = genFloatBits(t)
			}
			cd.Tuples = append(cd.Tuples, tu)
		}
	}
	if rapid.IntRange(0, 3).Draw(t, "colTimes") == 0 {
		for i := 0; i < k; i++ {
			cd.Times = append(cd.Times, rapid.Int64().Draw(t, "ct"))
		}
	}
	return cd, shape
}

func genChunk(t *rapid.T, c *ev.Case) chunkDesc {
	cd := chunkDesc{Kind: "chunk_codec"}
	cd.Name = rapid.OneOf(rapid.SampledFrom([]string{"", "cpu", "m,with=odd chars", "温度"}), rapid.StringN(0, 80, -1)).Draw(t, "name")
	n := rapid.OneOf(rapid.IntRange(0, 40), rapid.IntRange(0, 40), rapid.IntRange(41, 1100), rapid.SampledFrom([]int{0, 1, 7, 8, 9, 15, 16, 17, 63, 64, 65, 1024})).Draw(t, "rows")
	switch {
	case n == 0:
		c.Class("rows=0")
	case n < 8:
		c.Class("rows<8")
	case n <= 64:
		c.Class("rows<=64")
	default:
		c.Class("rows>64")
	}
	tm := genI64(t, "t0")
	for i := 0; i < n; i++ {
		cd.Times = append(cd.Times, tm)
		tm += rapid.Int64Range(0, 1e9).Draw(t, "dt")
	}
	// series (tag sets) and their first rows
	ntags := 0
	if n > 0 {
		ntags = rapid.IntRange(1, min(n, 5)).Draw(t, "ntags")
	} else {
		ntags = rapid.IntRange(0, 1).Draw(t, "ntags0")
	}
	pos := 0
	for i := 0; i < ntags; i++ {
		nk := rapid.IntRange(0, 3).Draw(t, "ntagkeys")
		var kv [][2]string
		for j := 0; j < nk; j++ {
			kv = append(kv, [2]string{rapid.SampledFrom([]string{"host", "region", "k e y", "标签", "a"}).Draw(t, "tk") + strconv.Itoa(j), rapid.OneOf(rapid.SampledFrom([]string{"", "server01", "x y", "值", "a=b,c"}), rapid.StringN(0, 20, -1)).Draw(t, "tv")})
		}
		cd.Tags = append(cd.Tags, kv)
		cd.TagIndex = append(cd.TagIndex, pos)
		if n > 0 {
			pos = min(n-1, pos+rapid.IntRange(1, max(1, n/ntags)).Draw(t, "tagStep"))
		}
	}
	for i := 0; i < n; i += rapid.IntRange(1, max(1, n/3)).Draw(t, "ivStep") {
		cd.Interval = append(cd.Interval, i)
	}
	ncols := rapid.IntRange(0, 5).Draw(t, "ncols")
	for i := 0; i < ncols; i++ {
		col, shape := genCol(t, n, []string{"float", "integer", "string", "boolean", "floattuple"})
		if rapid.IntRange(0, 15).Draw(t, "nilCol") == 0 {
			col = colDesc{Type: col.Type, NilCol: true}
			c.Class("col=nil_entry")
		} else {
			c.Class("col=" + col.Type)
			c.Class("nulls=" + shape)
			c.Class("build=" + col.Build)
			if len(col.Times) > 0 {
				c.Class("col=with_times")
			}
		}
		cd.Cols = append(cd.Cols, col)
	}
	if rapid.IntRange(0, 3).Draw(t, "hasDims") == 0 {
		nd := rapid.IntRange(1, 2).Draw(t, "ndims")
		for i := 0; i < nd; i++ {
			col, _ := genCol(t, n, []string{"string", "string", "integer"})
			cd.Dims = append(cd.Dims, col)
		}
		c.Class("chunk=dims")
	}
	if len(cd.Tags) > 1 {
		c.Class("chunk=multi_series")
	}
	return cd
}

func parseBits(s string) (float64, error) {
	u, err := strconv.ParseUint(s, 16, 64)
	return math.Float64frombits(u), err
}

func buildCol(cd colDesc) (executor.Column, error) {
	dt, ok := colTypes[cd.Type]
	if !ok {
		return nil, fmt.Errorf("column type %q", cd.Type)
	}
	col := executor.NewColumnImpl(dt)
	// null map
	switch cd.Build {
	case "bulk":
		if len(cd.Present) > 0 {
			if len(cd.Present) == 1 {
				col.AppendNilsV2(cd.Present[0])
			} else {
				half := len(cd.Present) / 2
				col.AppendNilsV2(cd.Present[:half]...)
				col.AppendNilsV2(cd.Present[half:]...)
			}
		}
	case "runs":
		for i := 0; i < len(cd.Present); {
			j := i
			for j < len(cd.Present) && cd.Present[j] == cd.Present[i] {
				j++
			}
			if cd.Present[i] {
				col.AppendManyNotNil(j - i)
			} else {
				col.AppendManyNil(j - i)
			}
			i = j
		}
	default:
		for _, p := range cd.Present {
			if p {
				col.AppendNotNil()
			} else {
				col.AppendNil()
			}
		}
	}
	switch cd.Type {
	case "float":
		for _, s := range cd.Floats {
			f, err := parseBits(s)
			if err != nil {
				return nil, err
			}
			col.AppendFloatValue(f)
		}
	case "integer":
		col.AppendIntegerValues(cd.Ints)
	case "string":
		if len(cd.Strs) > 0 {
			col.AppendStringValues(cd.Strs)
		}
	case "boolean":
		col.AppendBooleanValues(cd.Bools)
	case "floattuple":
		for _, tu := range cd.Tuples {
			vals := make([]float64, len(tu))
			for i, s := range tu {
				f, err := parseBits(s)
				if err != nil {
					return nil, err
				}
				vals[i] = f
			}
			col.AppendFloatTuple(*executor.NewfloatTuple(vals))
		}
	}
	if len(cd.Times) > 0 {
		col.AppendColumnTimes(cd.Times)
	}
	return col, nil
}

func buildChunk(cd chunkDesc) (*executor.ChunkImpl, error) {
	refs := make([]influxql.VarRef, len(cd.Cols))
	for i, c := range cd.Cols {
		refs[i] = influxql.VarRef{Val: fmt.Sprintf("c%d", i), Type: colTypes[c.Type]}
	}
	rt := hybridqp.NewRowDataTypeImpl(refs...)
	ck := executor.NewChunkImpl(rt, cd.Name)
	for _, c := range cd.Cols {
		if c.NilCol {
			ck.AddColumn(nil)
			continue
		}
		col, err := buildCol(c)
		if err != nil {
			return nil, err
		}
		ck.AddColumn(col)
	}
	for _, d := range cd.Dims {
		col, err := buildCol(d)
		if err != nil {
			return nil, err
		}
		ck.AddDim(col)
	}
	ck.AppendTimes(cd.Times)
	for i, kv := range cd.Tags {
		ks, vs := make([]string, len(kv)), make([]string, len(kv))
		for j := range kv {
			ks[j], vs[j] = kv[j][0], kv[j][1]
		}
		idx := 0
		if i < len(cd.TagIndex) {
			idx = cd.TagIndex[i]
		}
		ck.AppendTagsAndIndex(*executor.NewChunkTagsByTagKVs(ks, vs), idx)
	}
	ck.AppendIntervalIndexes(cd.Interval)
	return ck, nil
}

// eqRaw compares two values of the same type field by field INCLUDING unexported fields (the chunk's
// state is all unexported). nil and empty slices are the same thing. skip names fields that are set by
// the receiver or derived lazily.
func eqRaw(a, b reflect.Value, path string, skip map[string]bool) error {
	if a.Kind() == reflect.Interface || a.Kind() == reflect.Ptr {
		if a.IsNil() || b.IsNil() {
			if a.IsNil() != b.IsNil() {
				return fmt.Errorf("%s: nil vs non-nil", path)
			}
			return nil
		}
		if a.Kind() == reflect.Interface && a.Elem().Type() != b.Elem().Type() {
			return fmt.Errorf("%s: %s vs %s", path, a.Elem().Type(), b.Elem().Type())
		}
		return eqRaw(a.Elem(), b.Elem(), path, skip)
	}
	switch a.Kind() {
	case reflect.Struct:
		for i := 0; i < a.NumField(); i++ {
			name := a.Type().Field(i).Name
			if skip[a.Type().Name()+"."+name] {
				continue
			}
			if err := eqRaw(a.Field(i), b.Field(i), path+"."+name, skip); err != nil {
				return err
			}
		}
	case reflect.Slice, reflect.Array:
		if a.Len() != b.Len() {
			return fmt.Errorf("%s: length %d vs %d", path, a.Len(), b.Len())
		}
		for i := 0; i < a.Len(); i++ {
			if err := eqRaw(a.Index(i), b.Index(i), fmt.Sprintf("%s[%d]", path, i), skip); err != nil {
				return err
			}
		}
	case reflect.Float32, reflect.Float64:
		if math.Float64bits(a.Float()) != math.Float64bits(b.Float()) {
			return fmt.Errorf("%s: float bits %016x vs %016x", path, math.Float64bits(a.Float()), math.Float64bits(b.Float()))
		}
	case reflect.Int, reflect.Int8, reflect.Int16, reflect.Int32, reflect.Int64:
		if a.Int() != b.Int() {
			return fmt.Errorf("%s: %d vs %d", path, a.Int(), b.Int())
		}
	case reflect.Uint, reflect.Uint8, reflect.Uint16, reflect.Uint32, reflect.Uint64:
		if a.Uint() != b.Uint() {
			return fmt.Errorf("%s: %d vs %d", path, a.Uint(), b.Uint())
		}
	case reflect.Bool:
		if a.Bool() != b.Bool() {
			return fmt.Errorf("%s: %v vs %v", path, a.Bool(), b.Bool())
		}
	case reflect.String:
		if a.String() != b.String() {
			return fmt.Errorf("%s: %q vs %q", path, clip(a.String()), clip(b.String()))
		}
	case reflect.Map, reflect.Func, reflect.Chan:
		// none in a chunk
	}
	return nil
}

var chunkSkip = map[string]bool{
	"ChunkImpl.rowDataType": true, // set by the receiver (RPCReaderTransform.chunkResponse)
	"ChunkImpl.Record":      true,
	"ChunkImpl.graph":       true,
	"ChunkTags.offsets":     true, // re-derived from the head of subset on first use
}

func checkChunk(cd chunkDesc) error {
	ck, err := buildChunk(cd)
	if err != nil {
		return ev.InconclusiveError(err.Error())
	}
	msg := executor.NewChunkResponse(ck)
	buf, err := msg.Marshal(make([]byte, 0, msg.Size()))
	if err != nil {
		return fmt.Errorf("Marshal: %v", err)
	}
	in := rpc.NewMessageWithHandler(executor.NewRPCMessage)
	if err := in.Unmarshal(buf); err != nil {
		return fmt.Errorf("Unmarshal rejects what Marshal wrote: %v", err)
	}
	got, ok := in.Data().(*executor.ChunkImpl)
	if !ok || in.Type() != executor.ChunkResponseMessage {
		return fmt.Errorf("message carries %T (type %d)", in.Data(), in.Type())
	}
	if err := eqRaw(reflect.ValueOf(ck), reflect.ValueOf(got), "chunk", chunkSkip); err != nil {
		return err
	}
	// the same through the public accessors the transforms use
	if got.Name() != ck.Name() || got.NumberOfRows() != ck.NumberOfRows() || got.NumberOfCols() != ck.NumberOfCols() || got.TagLen() != ck.TagLen() {
		return fmt.Errorf("chunk header differs: %q/%d/%d/%d vs %q/%d/%d/%d", got.Name(), got.NumberOfRows(), got.NumberOfCols(), got.TagLen(), ck.Name(), ck.NumberOfRows(), ck.NumberOfCols(), ck.TagLen())
	}
	for i := range ck.Tags() {
		if !reflect.DeepEqual(ck.Tags()[i].KeyValues(), got.Tags()[i].KeyValues()) {
			return fmt.Errorf("tags[%d]: %v vs %v", i, ck.Tags()[i].KeyValues(), got.Tags()[i].KeyValues())
		}
	}
	for i, col := range ck.Columns() {
		if col == nil {
			continue
		}
		g := got.Column(i)
		if g.DataType() != col.DataType() || g.Length() != col.Length() || g.NilCount() != col.NilCount() {
			return fmt.Errorf("column %d: type/length/nils %v/%d/%d vs %v/%d/%d", i, g.DataType(), g.Length(), g.NilCount(), col.DataType(), col.Length(), col.NilCount())
		}
		for r := 0; r < col.Length(); r++ {
			if g.IsNilV2(r) != col.IsNilV2(r) {
				return fmt.Errorf("column %d row %d: null flag differs", i, r)
			}
		}
		if col.DataType() == influxql.String {
			a, b := col.StringValuesV2(nil), g.StringValuesV2(nil)
			if len(a) != len(b) {
				return fmt.Errorf("column %d: %d strings vs %d", i, len(a), len(b))
			}
			for r := range a {
				if a[r] != b[r] {
					return fmt.Errorf("column %d value %d: %q vs %q", i, r, clip(a[r]), clip(b[r]))
				}
			}
		}
	}
	// Size() frames the nested items: it must be the marshalled size
	if msg.Size() != len(buf) {
		return fmt.Errorf("Size() = %d but Marshal wrote %d bytes", msg.Size(), len(buf))
	}
	return nil
}

func TestChunkCodec(t *testing.T) {
	rapid.Check(t, ev.Prop(prop, "chunk_codec", func(t *rapid.T, c *ev.Case) {
		cd := genChunk(t, c)
		if err := checkChunk(cd); err != nil {
			if _, inc := err.(ev.InconclusiveError); inc {
				t.Fatalf("VERIF-INCONCLUSIVE %v", err)
			}
			c.Failf(t, prop, cd, "%v", err)
		}
		if len(cd.Times) > 0 && len(cd.Cols) > 0 {
			c.Nontrivial(ev.Hash(cd))
			types := []string{}
			for _, col := range cd.Cols {
				types = append(types, col.Type)
			}
			c.Sample(map[string]any{"kind": "chunk_codec", "name": cd.Name, "rows": len(cd.Times), "series": len(cd.Tags), "cols": types, "dims": len(cd.Dims)})
		}
	}))
}

func replayChunk(raw json.RawMessage) error {
	var cd chunkDesc
	if err := json.Unmarshal(raw, &cd); err != nil {
		return ev.InconclusiveError(err.Error())
	}
	return checkChunk(cd)
}
