package c12

import (
	"strings"
	"testing"
	"unicode/utf8"

	"github.com/openGemini/openGemini/lib/util/lifted/influx/influxql"
)

// FuzzExprRD: native fuzzing of ParseExpr o String (thorough tier). Arbitrary text; whatever ParseExpr
// accepts completely must survive printing and re-reading. Trees in a known-defect class are skipped.
func FuzzExprRD(f *testing.F) {
	for _, s := range []string{
		"a = 1", "a / 2.5 > 1.2", "a = 'x\\'y'", "\"we ird\" = 'a\\\\b'", "a =~ /x\\/y/", "a - (b - c) > 1", "(a + b) * c = 3",
		"a = 9223372036854775807", "a = -9223372036854775808", "time > now() - 5m", "a = 'line\\nbreak'", "a AND (b OR c)", "a OR b AND c",
		"a % 3 = 1", "f(a, 1, 'x') > 2", "a::tag = 'x'", "a::field > 1", "a != 'x' AND b !~ /y/", "a = 0.1", "- a > 1", "a > 5s", "a IN (1, 'x')", "a IN ('', 2.5)", "a NOTIN (1)", "a | b = 1", "a & 3 ^ c", "a > 1500ns",
		"a MATCH 'x'", "a LIKE '%x'", "count(*)", "count(/re/)", "18446744073709551615", "a.b = 1", "\"select\" = true", "+ 1.5", "- (a)", "1h30m", "*::tag",
	} {
		f.Add(s)
	}
	f.Fuzz(func(t *testing.T, text string) {
		if !utf8.ValidString(text) || len(text) > 400 {
			return
		}
		// A text that starts with '/' is read as a regex or as a division depending on the LAST token the pooled
		// scanner saw in an earlier parse (Scanner.reset keeps preToken): not a function of the text, so not checkable here.
		if strings.HasPrefix(strings.TrimLeft(text, " \t\n("), "/") {
			return
		}
		var out outcome
		var err error
		func() {
			defer func() {
				if r := recover(); r != nil {
					// a panic of the FIRST parse is a parser robustness matter, not this property
					out = outcome{rejected: "panic"}
				}
			}()
			out, err = checkExprRD(text)
		}()
		if out.rejected != "" {
			return
		}
		for _, cls := range knownClassesOfR([]influxql.Expr{out.tree}, false) {
			if !classIncluded(cls) {
				return
			}
		}
		if err != nil {
			t.Fatalf("text %q: %v", text, err)
		}
	})
}
