package c12

import (
	"fmt"
	"math"
	"reflect"
	"strconv"
	"strings"
	"testing"

	"github.com/openGemini/openGemini/lib/util/lifted/influx/influxql"
	"pgregory.net/rapid"
	"verif/internal/ev"
)

// Known classes of the statement / source printers (see the report).
const (
	clsSrcAlias     = "measurement_alias"         // FROM m AS x: Measurement.String() does not print the alias
	clsNotInReread  = "front_end_rereads_notin"   // the front end prints NOTIN / infix MATCH, which its own grammar does not read
	clsExceptClause = "except_clause_not_printed" // GROUP BY * EXCEPT a: SelectStatement.String() omits the EXCEPT clause
	clsHintSpace    = "hint_printing"
	clsFillBigFloat = "fill_value_float_printing" // fill(100.0) is printed with %v: "100" is re-read as an integer (and exponent forms are not readable at all)
	clsStringSource = "string_as_measurement"
	clsQualifiedSrc = "qualified_measurement_source" // ParseSource("db.rp.m") returns one measurement called "db.rp.m"
	clsFillRD       = "fill_clause_store_parser"     // ParseStatement/ParseSource stop reading at fill(...): FILL is a keyword token now, parseFill expects an identifier
	clsSortQuote    = "sort_field_needs_quotes"      // ORDER BY "select": SortField.String() prints the name without quotes
	clsRegexSlashFE = "regex_slash_front_end_reread" // /a\/b/ printed and read again by the FRONT END gains a backslash per round (stored continuous queries)
	clsQualAfterSub = "qualified_source_after_subquery" // FROM (SELECT ... WHERE ...), db.rp.m: the scanner's dot handling depends on the tokens seen before
	clsMinIntFE     = "min_int64_front_end_reread"   // the front-end lexer ignores ParseInt range errors: -9223372036854775808 is re-read as -9223372036854775807
	clsSubqAlias    = "subquery_alias"               // (SELECT ...) AS x: ParseSource/ParseStatement read the alias and drop it
)

// ---------------------------------------------------------------- generators

func (g *gen) measurementName() string {
	return g.identText(g.identValueNoDot())
}

func (g *gen) identValueNoDot() string {
	for i := 0; i < 3; i++ {
		v := g.identValue()
		if !strings.Contains(v, ".") || needsQuote(v) {
			return v
		}
	}
	return "m"
}

func (g *gen) measurement() string { return g.measurementR(true) }

func (g *gen) measurementR(regexOK bool) string {
	name := g.measurementName()
	if g.chance("mstRegex", 15) && regexOK {
		name = g.regexLit()
	}
	switch g.pick("mstForm", 8) {
	case 0:
		return g.measurementName() + "." + g.measurementName() + "." + name
	case 1:
		return g.measurementName() + ".." + name
	case 2:
		return g.measurementName() + "." + name
	default:
		return name
	}
}

func (g *gen) source(depth int) string {
	switch g.pick("srcKind", 10) {
	case 0, 1:
		if depth > 0 {
			s := "(" + g.selectStmt(depth-1, false) + ")"
			if g.chance("subAlias", 30) {
				s += " AS " + rapid.SampledFrom(bareIdents).Draw(g.t, "alias")
			}
			return s
		}
		return g.measurement()
	case 2:
		m := g.measurement()
		if g.allow(clsSrcAlias) {
			return m + " AS " + rapid.SampledFrom(bareIdents).Draw(g.t, "alias")
		}
		return m
	default:
		return g.measurement()
	}
}

func (g *gen) dimension() string {
	switch g.pick("dimKind", 10) {
	case 0, 1:
		d := g.durationLit()
		if strings.HasPrefix(d, "0") {
			d = "1m"
		}
		switch g.pick("timeArgs", 4) {
		case 0:
			return "time(" + d + "," + g.sp() + g.durationLit() + ")"
		case 1:
			return "time(" + d + ", -" + g.durationLit() + ")"
		default:
			return "time(" + d + ")"
		}
	case 2:
		return "*"
	case 3:
		return g.regexLit()
	case 4:
		return g.identText(g.identValue()) + "::tag"
	default:
		return g.identText(g.identValue())
	}
}

var tzNames = []string{"UTC", "Asia/Shanghai", "America/New_York", "Europe/Berlin"}

func (g *gen) selectStmt(depth int, top bool) string {
	var sb strings.Builder
	sb.WriteString("SELECT ")
	if g.chance("hint", 8) {
		sb.WriteString("/*+ " + rapid.SampledFrom([]string{"full_series", "specific_series", "filter_null_column", "exact_statistic_query", "query_push_down"}).Draw(g.t, "hintname") + " */ ")
	}
	sb.WriteString(g.fieldList(min(depth, 2)))
	if top && g.chance("into", 10) {
		sb.WriteString(" INTO " + g.measurementR(false))
	}
	sb.WriteString(" FROM ")
	ns := rapid.SampledFrom([]int{1, 1, 1, 1, 2, 3}).Draw(g.t, "nsources")
	srcs := make([]string, ns)
	seenSub := false
	for i := range srcs {
		srcs[i] = g.source(depth)
		if seenSub && !strings.HasPrefix(srcs[i], "(") && !g.allow(clsQualAfterSub) {
			srcs[i] = g.measurementName()
		}
		seenSub = seenSub || strings.HasPrefix(srcs[i], "(")
	}
	sb.WriteString(strings.Join(srcs, ","+g.sp()))
	if g.chance("where", 60) {
		sb.WriteString(" WHERE " + g.cond(min(depth, 2)))
	}
	if g.chance("groupby", 45) {
		n := rapid.IntRange(1, 3).Draw(g.t, "ndims")
		ds := make([]string, n)
		for i := range ds {
			ds[i] = g.dimension()
		}
		sb.WriteString(" GROUP BY " + strings.Join(ds, ","+g.sp()))
		if g.chance("except", 8) && g.allow(clsExceptClause) {
			sb.WriteString(" EXCEPT " + g.identText(g.identValue()))
		}
	}
	if g.chance("fill", 30) {
		f := rapid.SampledFrom([]string{"null", "none", "previous", "linear", "0", "5", "-3", "2.5", "-0.25", "1000000", "0.125", "99.5", "100.0"}).Draw(g.t, "fillv")
		sb.WriteString(" fill(" + f + ")")
	}
	if g.chance("orderby", 30) {
		n := rapid.IntRange(1, 2).Draw(g.t, "nsort")
		fs := make([]string, n)
		for i := range fs {
			name := rapid.SampledFrom(bareIdents).Draw(g.t, "sortName")
			if g.chance("oddSortName", 12) {
				name = g.identText(g.identValue())
			}
			fs[i] = name + rapid.SampledFrom([]string{"", " ASC", " DESC", " desc"}).Draw(g.t, "dir")
		}
		sb.WriteString(" ORDER BY " + strings.Join(fs, ", "))
	}
	if g.chance("limit", 30) {
		sb.WriteString(" LIMIT " + strconv.Itoa(rapid.IntRange(1, 100000).Draw(g.t, "lim")))
	}
	if g.chance("offset", 20) {
		sb.WriteString(" OFFSET " + strconv.Itoa(rapid.IntRange(0, 1000).Draw(g.t, "off")))
	}
	if g.chance("slimit", 15) {
		sb.WriteString(" SLIMIT " + strconv.Itoa(rapid.IntRange(1, 1000).Draw(g.t, "slim")))
	}
	if g.chance("soffset", 10) {
		sb.WriteString(" SOFFSET " + strconv.Itoa(rapid.IntRange(0, 1000).Draw(g.t, "soff")))
	}
	if g.chance("tz", 12) {
		sb.WriteString(" tz('" + rapid.SampledFrom(tzNames).Draw(g.t, "tzname") + "')")
	}
	return sb.String()
}

// ---------------------------------------------------------------- check

var tMeasurement = reflect.TypeOf(influxql.Measurement{})

// checkStmt: a SELECT accepted by the front end is printed; the text is read again (a) by the
// recursive-descent parser, which is what the store does with sub-query sources (query.DecodeSource ->
// influxql.ParseSource) and (b) by the front end itself (stored continuous queries are re-read that way).
func checkStmt(text string, params map[string]interface{}) (outcome, error) {
	return checkStmtExcl(text, params, func(string) bool { return false })
}

var (
	// classes that only concern the store-side re-read (a) / only the front-end re-read (b)
	stmtClassesA = map[string]bool{clsFillRD: true, clsSubqAlias: true, clsAndOverOr: true, clsBitwise: true, clsInfNanIdent: true, clsCaseWhen: true, clsYaccOnlyCast: true, clsLikeArith: true, clsEmptyInSet: true}
	stmtClassesB = map[string]bool{clsNotInReread: true, clsRegexSlashFE: true, clsMinIntFE: true}
)

func checkStmtExcl(text string, params map[string]interface{}, excl func(cls string) bool) (outcome, error) {
	st, err := yaccSelect(text, params)
	if err != nil {
		return outcome{rejected: err.Error()}, nil
	}
	out := outcome{trees: stmtExprs(st)}
	out.printed = st.String()
	skipA, skipB := false, false
	for _, cls := range append(knownClassesOf(out.trees), stmtClasses(st)...) {
		if !excl(cls) {
			continue
		}
		switch {
		case stmtClassesA[cls]:
			skipA = true
		case stmtClassesB[cls]:
			skipB = true
		default:
			skipA, skipB = true, true
		}
	}
	out.parts = 0

	// (a) store side
	if !skipA {
		out.parts++
		s2, err := influxql.ParseStatement(out.printed)
		if err != nil {
			return out, fmt.Errorf("printed statement %q is rejected by ParseStatement: %v", clip(out.printed), err)
		}
		if derr := sameTree(st, s2, looseEq); derr != nil {
			return out, fmt.Errorf("printed statement %q re-parses (ParseStatement) to a different statement: %v [reprinted: %q]", clip(out.printed), derr, clip(s2.String()))
		}
		// every source on its own, the way DecodeSource / DecodeJoinCases read them
		for i, src := range st.Sources {
			if m, ok := src.(*influxql.Measurement); ok && (m.Database != "" || m.RetentionPolicy != "") && excl(clsQualifiedSrc) {
				continue
			}
			ptxt := src.String()
			src2, err := influxql.ParseSource(ptxt)
			if err != nil {
				return out, fmt.Errorf("printed source %d %q is rejected by ParseSource: %v", i, clip(ptxt), err)
			}
			if derr := sameTree(src, src2, looseEq); derr != nil {
				return out, fmt.Errorf("printed source %d %q re-parses (ParseSource) to a different source: %v", i, clip(ptxt), derr)
			}
		}
	}
	// (b) front end
	if !skipB {
		out.parts++
		s3, err := yaccSelect(out.printed, nil)
		if err != nil {
			return out, fmt.Errorf("printed statement %q is rejected by the front-end parser: %v", clip(out.printed), err)
		}
		if derr := sameTree(st, s3, looseEq); derr != nil {
			return out, fmt.Errorf("printed statement %q re-parses (front end) to a different statement: %v [reprinted: %q]", clip(out.printed), derr, clip(s3.String()))
		}
	}
	return out, nil
}

// stmtExprs collects the expressions of a statement (for class counters and known-class predicates).
func stmtExprs(st *influxql.SelectStatement) []influxql.Expr {
	var out []influxql.Expr
	for _, f := range st.Fields {
		out = append(out, f.Expr)
	}
	if !isNilExpr(st.Condition) {
		out = append(out, st.Condition)
	}
	for _, d := range st.Dimensions {
		out = append(out, d.Expr)
	}
	for _, s := range st.Sources {
		switch x := s.(type) {
		case *influxql.SubQuery:
			out = append(out, stmtExprs(x.Statement)...)
		}
	}
	return out
}

// stmtClasses: known classes that live in the statement / source printers.
func stmtClasses(st *influxql.SelectStatement) []string {
	set := map[string]bool{}
	var walk func(s *influxql.SelectStatement)
	walk = func(s *influxql.SelectStatement) {
		if s.Fill != influxql.NullFill {
			set[clsFillRD] = true
		}
		if f, ok := s.FillValue.(float64); ok && s.Fill == influxql.NumberFill && (f == math.Trunc(f) || math.Abs(f) >= 1e21 || (f != 0 && math.Abs(f) < 1e-4)) {
			set[clsFillBigFloat] = true
		}
		if len(s.ExceptDimensions) > 0 {
			set[clsExceptClause] = true
		}
		for _, sf := range s.SortFields {
			if influxql.IdentNeedsQuotes(sf.Name) {
				set[clsSortQuote] = true
			}
		}
		seenSub := false
		for _, src := range s.Sources {
			switch x := src.(type) {
			case *influxql.Measurement:
				if seenSub && (x.Database != "" || x.RetentionPolicy != "" || strings.Contains(x.Name, ".")) {
					set[clsQualAfterSub] = true
				}
				if x.Alias != "" {
					set[clsSrcAlias] = true
				}
				if x.Regex != nil && x.Regex.Val != nil && strings.Contains(x.Regex.Val.String(), "/") {
					set[clsRegexSlashFE] = true
				}
			case *influxql.SubQuery:
				seenSub = true
				if x.Alias != "" {
					set[clsSubqAlias] = true
				}
				walk(x.Statement)
			}
		}
	}
	walk(st)
	for _, e := range stmtExprs(st) {
		influxql.WalkFunc(e, func(n influxql.Node) {
			if il, ok := n.(*influxql.IntegerLiteral); ok && il.Val == math.MinInt64 {
				set[clsMinIntFE] = true
			}
			if r, ok := n.(*influxql.RegexLiteral); ok && r.Val != nil && strings.Contains(r.Val.String(), "/") {
				set[clsRegexSlashFE] = true
			}
			if b, ok := n.(*influxql.BinaryExpr); ok {
				switch b.Op {
				case influxql.NOTIN, influxql.MATCH, influxql.MATCHPHRASE, influxql.IPINRANGE:
					set[clsNotInReread] = true
				}
			}
		})
	}
	out := []string{}
	for k := range set {
		out = append(out, k)
	}
	return out
}

func TestStmtRoundTrip(t *testing.T) {
	rapid.Check(t, ev.Prop(prop, "stmt_rt", func(t *rapid.T, c *ev.Case) {
		g := &gen{t: t, c: c, d: dialect{yacc: true, params: true}, params: map[string]interface{}{}}
		text := g.selectStmt(rapid.SampledFrom([]int{0, 1, 1, 2}).Draw(t, "depth"), true)
		tc := textCase{Kind: "stmt_rt", Text: text, Params: paramsToJSON(g.params)}
		st, perr := yaccSelect(text, g.params)
		if perr != nil {
			c.Class("rejected")
			return
		}
		c.Class("accepted")
		trees := stmtExprs(st)
		ts := mergeStats(trees)
		recordTree(c, ts)
		stmtShape(c, st)
		seen := map[string]bool{}
		out, err := checkStmtExcl(text, g.params, func(cls string) bool {
			if classIncluded(cls) {
				return false
			}
			if !seen[cls] {
				seen[cls] = true
				c.Excluded("tree:" + cls)
			}
			return true
		})
		if err != nil {
			c.Failf(t, prop, tc, "%v", err)
		}
		c.Class(fmt.Sprintf("rereads=%d", out.parts))
		if out.parts == 0 {
			return
		}
		c.Nontrivial("stmt|" + text + "|" + ev.Hash(tc.Params))
		c.Sample(map[string]any{"kind": "stmt_rt", "text": text, "printed": out.printed})
	}))
}

func stmtShape(c *ev.Case, st *influxql.SelectStatement) {
	if st.Target != nil {
		c.Class("stmt=into")
	}
	if len(st.Sources) > 1 {
		c.Class("stmt=multi_source")
	}
	for _, s := range st.Sources {
		switch x := s.(type) {
		case *influxql.SubQuery:
			c.Class("stmt=subquery")
		case *influxql.Measurement:
			if x.Regex != nil {
				c.Class("stmt=regex_source")
			}
			if x.Database != "" || x.RetentionPolicy != "" {
				c.Class("stmt=qualified_source")
			}
		}
	}
	if !isNilExpr(st.Condition) {
		c.Class("stmt=where")
	}
	if len(st.Dimensions) > 0 {
		c.Class("stmt=group_by")
	}
	if st.Fill != influxql.NullFill {
		c.Class(fmt.Sprintf("stmt=fill_%d", st.Fill))
	}
	if len(st.SortFields) > 0 {
		c.Class("stmt=order_by")
	}
	if st.Limit > 0 || st.Offset > 0 || st.SLimit > 0 || st.SOffset > 0 {
		c.Class("stmt=limits")
	}
	if st.Location != nil {
		c.Class("stmt=tz")
	}
	if len(st.Hints) > 0 {
		c.Class("stmt=hints")
	}
}
