package c12

// Structural comparison of AST values / codec objects by reflection over EXPORTED fields.
// Unexported fields of the AST (depth caches, memoised intervals) are not part of what the
// property promises. ParenExpr nodes are transparent: grouping is carried by the tree shape.

import (
	"fmt"
	"math"
	"reflect"
	"regexp"
	"time"

	"github.com/openGemini/openGemini/lib/util/lifted/influx/influxql"
)

var (
	tRegexp   = reflect.TypeOf(regexp.Regexp{})
	tTime     = reflect.TypeOf(time.Time{})
	tLocation = reflect.TypeOf(time.Location{})
	tExpr     = reflect.TypeOf((*influxql.Expr)(nil)).Elem()
	tParen    = reflect.TypeOf(&influxql.ParenExpr{})
)

type eqOpts struct {
	strictParens bool
	// skip reports fields that are not compared (derived / not carried by the text)
	skip func(structType reflect.Type, field string) bool
}

func stripParens(e influxql.Expr) influxql.Expr {
	for {
		p, ok := e.(*influxql.ParenExpr)
		if !ok || p == nil {
			return e
		}
		e = p.Expr
	}
}

// sameTree returns nil when a and b are structurally equal, else a description of the first difference.
func sameTree(a, b interface{}, o eqOpts) error {
	return eqValue(reflect.ValueOf(a), reflect.ValueOf(b), "", o)
}

func isNilable(k reflect.Kind) bool {
	switch k {
	case reflect.Ptr, reflect.Interface, reflect.Slice, reflect.Map, reflect.Func, reflect.Chan:
		return true
	}
	return false
}

func unwrapParen(v reflect.Value) reflect.Value {
	for v.IsValid() && v.Type() == tParen && !v.IsNil() {
		inner := v.Interface().(*influxql.ParenExpr).Expr
		if inner == nil {
			return v
		}
		v = reflect.ValueOf(inner)
	}
	return v
}

func eqValue(a, b reflect.Value, path string, o eqOpts) error {
	if !a.IsValid() || !b.IsValid() {
		if a.IsValid() != b.IsValid() {
			// an untyped nil against a typed nil pointer / empty value
			x := a
			if !x.IsValid() {
				x = b
			}
			if isNilable(x.Kind()) && (x.IsNil() || ((x.Kind() == reflect.Slice || x.Kind() == reflect.Map) && x.Len() == 0)) {
				return nil
			}
			return fmt.Errorf("%s: one side is nil, the other is %s", path, x.Type())
		}
		return nil
	}
	// interfaces: look at the dynamic values
	if a.Kind() == reflect.Interface {
		if a.IsNil() {
			a = reflect.Value{}
		} else {
			a = a.Elem()
		}
		if b.Kind() == reflect.Interface {
			if b.IsNil() {
				b = reflect.Value{}
			} else {
				b = b.Elem()
			}
		}
		return eqValue(a, b, path, o)
	}
	if b.Kind() == reflect.Interface {
		if b.IsNil() {
			b = reflect.Value{}
		} else {
			b = b.Elem()
		}
		return eqValue(a, b, path, o)
	}
	if !o.strictParens {
		a, b = unwrapParen(a), unwrapParen(b)
	}
	if a.Type() != b.Type() {
		return fmt.Errorf("%s: type %s vs %s (%s vs %s)", path, a.Type(), b.Type(), render(a), render(b))
	}
	switch a.Kind() {
	case reflect.Ptr:
		if a.IsNil() || b.IsNil() {
			if a.IsNil() != b.IsNil() {
				x := a
				if x.IsNil() {
					x = b
				}
				// a nil *IndexOptions and one without options both say "no options" (protobuf cannot carry a nil list element)
				if io, ok := x.Interface().(*influxql.IndexOptions); ok && len(io.Options) == 0 {
					return nil
				}
				return fmt.Errorf("%s: nil vs non-nil %s", path, a.Type())
			}
			return nil
		}
		return eqValue(a.Elem(), b.Elem(), path, o)
	case reflect.Struct:
		switch a.Type() {
		case tRegexp:
			ra, rb := a.Addr().Interface().(*regexp.Regexp), b.Addr().Interface().(*regexp.Regexp)
			if ra.String() != rb.String() {
				return fmt.Errorf("%s: regex %q vs %q", path, ra.String(), rb.String())
			}
			return nil
		case tTime:
			ta, tb := a.Interface().(time.Time), b.Interface().(time.Time)
			if !ta.Equal(tb) {
				return fmt.Errorf("%s: time %s vs %s", path, ta, tb)
			}
			return nil
		case tLocation:
			la, lb := a.Addr().Interface().(*time.Location), b.Addr().Interface().(*time.Location)
			if la.String() != lb.String() {
				return fmt.Errorf("%s: location %s vs %s", path, la, lb)
			}
			return nil
		}
		for i := 0; i < a.NumField(); i++ {
			f := a.Type().Field(i)
			if f.PkgPath != "" { // unexported
				continue
			}
			if o.skip != nil && o.skip(a.Type(), f.Name) {
				continue
			}
			if err := eqValue(a.Field(i), b.Field(i), path+"."+f.Name, o); err != nil {
				return err
			}
		}
		return nil
	case reflect.Slice, reflect.Array:
		if a.Len() != b.Len() {
			return fmt.Errorf("%s: length %d vs %d (%s vs %s)", path, a.Len(), b.Len(), render(a), render(b))
		}
		for i := 0; i < a.Len(); i++ {
			if err := eqValue(a.Index(i), b.Index(i), fmt.Sprintf("%s[%d]", path, i), o); err != nil {
				return err
			}
		}
		return nil
	case reflect.Map:
		if a.Len() != b.Len() {
			return fmt.Errorf("%s: map size %d vs %d (%s vs %s)", path, a.Len(), b.Len(), render(a), render(b))
		}
		for _, k := range a.MapKeys() {
			bv := b.MapIndex(k)
			if !bv.IsValid() {
				return fmt.Errorf("%s: key %v missing (%s vs %s)", path, k, render(a), render(b))
			}
			if err := eqValue(a.MapIndex(k), bv, fmt.Sprintf("%s[%v]", path, k), o); err != nil {
				return err
			}
		}
		return nil
	case reflect.Float64, reflect.Float32:
		fa, fb := a.Float(), b.Float()
		if math.IsNaN(fa) && math.IsNaN(fb) {
			return nil
		}
		if math.Float64bits(fa) != math.Float64bits(fb) {
			return fmt.Errorf("%s: %v vs %v", path, fa, fb)
		}
		return nil
	case reflect.Func, reflect.Chan, reflect.UnsafePointer:
		return nil
	default:
		if a.CanInterface() && b.CanInterface() {
			if !reflect.DeepEqual(a.Interface(), b.Interface()) {
				return fmt.Errorf("%s: %s vs %s", path, render(a), render(b))
			}
			return nil
		}
		return nil
	}
}

func render(v reflect.Value) string {
	if !v.IsValid() {
		return "<nil>"
	}
	if v.CanInterface() {
		if s, ok := v.Interface().(fmt.Stringer); ok && !(v.Kind() == reflect.Ptr && v.IsNil()) {
			return fmt.Sprintf("%s{%s}", v.Type(), clip(s.String()))
		}
		return clip(fmt.Sprintf("%#v", v.Interface()))
	}
	return v.Type().String()
}

func clip(s string) string {
	if len(s) > 160 {
		return s[:160] + "..."
	}
	return s
}

// ---------------------------------------------------------------- tree statistics

type treeStats struct {
	depth        int
	nodes        int
	quotedIdent  bool
	escapedStr   bool
	regex        bool
	integralFlt  bool
	parens       int
	kinds        map[string]bool
	ops          map[string]bool
	lostGrouping bool // a binary child that the printer shows without parentheses although re-reading regroups it
}

func statsOf(e influxql.Expr) *treeStats {
	st := &treeStats{kinds: map[string]bool{}, ops: map[string]bool{}}
	st.depth = st.walk(e)
	return st
}

func (st *treeStats) walk(e influxql.Expr) int {
	if e == nil || (reflect.ValueOf(e).Kind() == reflect.Ptr && reflect.ValueOf(e).IsNil()) {
		return 0
	}
	st.nodes++
	st.kinds[fmt.Sprintf("%T", e)[len("*influxql."):]] = true
	d := 0
	switch n := e.(type) {
	case *influxql.BinaryExpr:
		st.ops[n.Op.String()] = true
		for i, ch := range []influxql.Expr{n.LHS, n.RHS} {
			if cb, ok := ch.(*influxql.BinaryExpr); ok {
				pp, cp := n.Op.Precedence(), cb.Op.Precedence()
				if cp < pp || (cp == pp && i == 1) {
					st.lostGrouping = true
				}
			}
			d = max(d, st.walk(ch))
		}
	case *influxql.ParenExpr:
		st.parens++
		d = st.walk(n.Expr)
	case *influxql.Call:
		for _, a := range n.Args {
			d = max(d, st.walk(a))
		}
	case *influxql.VarRef:
		if influxql.IdentNeedsQuotes(n.Val) {
			st.quotedIdent = true
		}
	case *influxql.StringLiteral:
		for _, r := range n.Val {
			if r == '\'' || r == '\\' || r == '\n' || r == '"' {
				st.escapedStr = true
			}
		}
	case *influxql.RegexLiteral:
		st.regex = true
	case *influxql.NumberLiteral:
		if n.Val == math.Trunc(n.Val) {
			st.integralFlt = true
		}
	case *influxql.CaseWhenExpr:
		for _, c := range n.Conditions {
			d = max(d, st.walk(c))
		}
		for _, c := range n.Assigners {
			d = max(d, st.walk(c))
		}
	}
	return d + 1
}

func (st *treeStats) nontrivial() bool {
	return st.depth >= 3 || st.quotedIdent || st.escapedStr || st.regex || st.integralFlt
}

func depthClass(d int) string {
	switch {
	case d <= 1:
		return "depth<=1"
	case d == 2:
		return "depth=2"
	case d <= 4:
		return "depth=3..4"
	case d <= 7:
		return "depth=5..7"
	default:
		return "depth>=8"
	}
}
