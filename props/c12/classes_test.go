package c12

import (
	"math"
	"strings"

	"github.com/openGemini/openGemini/lib/util/lifted/influx/influxql"
)

// knownClassesOf names the known-defect classes (see gen_test.go) that a parsed tree belongs to.
// The predicates are narrow and syntactic; a failure on a tree outside all of them is a VIOLATION.
func knownClassesOf(trees []influxql.Expr) []string { return knownClassesOfR(trees, true) }

// rootRegexSafe: a regex that is a whole field / dimension is read back through parseRegex (un-escaping);
// a regex that is a whole ParseExpr input is not.
func knownClassesOfR(trees []influxql.Expr, rootRegexSafe bool) []string {
	set := map[string]bool{}
	for _, e := range trees {
		// regex literals in the positions where both parsers un-escape "\/" (right side of =~ !~, call arguments)
		safeRegex := map[*influxql.RegexLiteral]bool{}
		if re, ok := e.(*influxql.RegexLiteral); ok && rootRegexSafe {
			safeRegex[re] = true
		}
		influxql.WalkFunc(e, func(n influxql.Node) {
			switch x := n.(type) {
			case *influxql.BinaryExpr:
				if re, ok := x.RHS.(*influxql.RegexLiteral); ok && (x.Op == influxql.EQREGEX || x.Op == influxql.NEQREGEX) {
					safeRegex[re] = true
				}
			case *influxql.Call:
				for _, a := range x.Args {
					if re, ok := a.(*influxql.RegexLiteral); ok {
						safeRegex[re] = true
					}
				}
			}
		})
		influxql.WalkFunc(e, func(n influxql.Node) {
			switch x := n.(type) {
			case *influxql.RegexLiteral:
				if x != nil && x.Val != nil && !safeRegex[x] && strings.Contains(x.Val.String(), "/") {
					set[clsRegexOperand] = true
				}
			case *influxql.NumberLiteral:
				if x.Val == math.Trunc(x.Val) && !(x.Val > math.MaxInt) && !math.IsInf(x.Val, 0) {
					set[clsIntegralFloat] = true
				}
			case *influxql.DurationLiteral:
				if x.Val%1000 != 0 {
					set[clsSubMicroDur] = true
				}
				if int64(x.Val) == math.MinInt64 {
					set[clsMinDuration] = true
				}
			case *influxql.VarRef:
				if strings.EqualFold(x.Val, "inf") || strings.EqualFold(x.Val, "nan") {
					set[clsInfNanIdent] = true
				}
				if x.Type == influxql.Time || x.Type == influxql.Duration {
					set[clsYaccOnlyCast] = true
				}
				if hasCtrl(x.Val) {
					set[clsCtrlCharParam] = true
				}
			case *influxql.StringLiteral:
				if hasCtrl(x.Val) {
					set[clsCtrlCharParam] = true
				}
			case *influxql.Call:
				if x.Name == "" || influxql.IdentNeedsQuotes(x.Name) {
					set[clsCallNameQuote] = true
				}
			case *influxql.CaseWhenExpr:
				set[clsCaseWhen] = true
			case *influxql.TimeLiteral:
				set[clsTimeLiteral] = true
			case *influxql.SetLiteral:
				if x.Vals[""] {
					set[clsEmptyInSet] = true
				}
				for k := range x.Vals {
					if s, ok := k.(string); ok && hasCtrl(s) {
						set[clsCtrlCharParam] = true
					}
				}
			case *influxql.BinaryExpr:
				switch x.Op {
				case influxql.BITWISE_AND, influxql.BITWISE_OR, influxql.BITWISE_XOR:
					set[clsBitwise] = true
				case influxql.DIV:
					if !divSafeTail(x.LHS) {
						set[clsDivAfterLit] = true
					}
				}
				for i, ch := range []influxql.Expr{x.LHS, x.RHS} {
					cb, ok := ch.(*influxql.BinaryExpr)
					if !ok {
						continue
					}
					pp, cp := x.Op.Precedence(), cb.Op.Precedence()
					if !(cp < pp || (cp == pp && i == 1)) {
						continue
					}
					// the printer writes no parentheses here and the store-side parser regroups
					switch {
					case x.Op == influxql.AND && cb.Op == influxql.OR:
						set[clsAndOverOr] = true
					case isSignProduct(cb) && i == 1:
						set[clsSignedOperand] = true
					case x.Op == influxql.LIKE || x.Op == influxql.MATCH || x.Op == influxql.MATCHPHRASE || x.Op == influxql.IPINRANGE:
						set[clsLikeArith] = true
					}
				}
			}
		})
	}
	out := make([]string, 0, len(set))
	for k := range set {
		out = append(out, k)
	}
	return out
}

// isSignProduct: the tree both parsers build for a unary sign in front of a non-literal: ±1 * x.
func isSignProduct(b *influxql.BinaryExpr) bool {
	if b.Op != influxql.MUL {
		return false
	}
	l, ok := b.LHS.(*influxql.IntegerLiteral)
	return ok && (l.Val == -1 || l.Val == 1)
}

// divSafeTail: does the printed form of e end with a token after which the scanner reads '/' as a division?
func divSafeTail(e influxql.Expr) bool {
	switch x := e.(type) {
	case *influxql.BinaryExpr:
		return divSafeTail(x.RHS)
	case *influxql.ParenExpr, *influxql.Call:
		return true
	case *influxql.VarRef:
		return x.Type != influxql.Tag && x.Type != influxql.AnyField
	case *influxql.NumberLiteral:
		return !math.IsInf(x.Val, 0) && !math.IsNaN(x.Val)
	case *influxql.IntegerLiteral, *influxql.UnsignedLiteral:
		return true
	}
	return false
}
