package c12

import (
	"encoding/json"
	"testing"

	"verif/internal/ev"
)

// TestReplay re-executes saved cases (replays/C12/*.json) without rapid. The case JSON is what the
// campaigns write: {"kind": ..., ...}; the kind selects the check.
func TestReplay(t *testing.T) {
	ev.RunReplays(func(raw json.RawMessage, f ev.Failure) error {
		var k struct {
			Kind string `json:"kind"`
		}
		if err := json.Unmarshal(raw, &k); err != nil {
			return ev.InconclusiveError(err.Error())
		}
		switch k.Kind {
		case "expr_rd", "cond_ship", "fields_ship", "stmt_rt", "planned_cond":
			return replayText(raw)
		case "opt_codec", "remote_query":
			return replayOpt(raw)
		case "chunk_codec":
			return replayChunk(raw)
		case "plan_codec":
			return replayPlan(raw)
		}
		return ev.InconclusiveError("no replayer for kind " + k.Kind)
	})
}
