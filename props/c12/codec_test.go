package c12

// Serialise / deserialise round trips of what the sql node sends to the store nodes
// (query.ProcessorOptions, executor.RemoteQuery) and of what comes back (executor.ChunkImpl).

import (
	"encoding/json"
	"fmt"
	"math"
	"reflect"
	"regexp"
	"strings"
	"testing"
	"time"

	"github.com/openGemini/openGemini/engine/executor"
	"github.com/openGemini/openGemini/engine/hybridqp"
	"github.com/openGemini/openGemini/lib/config"
	"github.com/openGemini/openGemini/lib/obs"
	"github.com/openGemini/openGemini/lib/spdy/rpc"
	"github.com/openGemini/openGemini/lib/util/lifted/influx/influxql"
	"github.com/openGemini/openGemini/lib/util/lifted/influx/query"
	"pgregory.net/rapid"
	"verif/internal/ev"
)

// ---------------------------------------------------------------- ProcessorOptions

// optCarried: the fields of query.ProcessorOptions that have a counterpart in the wire message
// (lib/util/lifted/influx/query/proto/internal.proto, message ProcessorOptions). The other fields of the
// struct (channels, authorizer, sql-node-only switches) are not part of what is promised to travel.
var optCarried = []string{
	"Name", "Expr", "Aux", "Sources", "Interval", "Dimensions", "GroupBy", "Fill", "Condition", "StartTime", "EndTime",
	"Location", "Ascending", "Limit", "Offset", "SLimit", "SOffset", "StripName", "Dedupe", "MaxSeriesN", "Ordered",
	"ChunkSize", "MaxParallel", "Query", "HintType", "EnableBinaryTreeMerge", "QueryId", "SeriesKey", "GroupByAllDims",
	"SortFields", "HasFieldWildcard", "LogQueryCurrId", "IncQuery", "IterID", "PromQuery", "Step", "Range",
	"LookBackDelta", "QueryOffset", "Without", "PromRemoteRead", "ValueCondition",
}

// measurement fields with a counterpart in message Measurement; TokensTable is derived from Tokens.
func skipNotCarried(st reflect.Type, field string) bool {
	switch st.Name() {
	case "Measurement":
		switch field {
		case "Alias", "IsSystemStatement", "MstType":
			return true
		}
	case "IndexOption":
		return field == "TokensTable" // derived from Tokens on arrival
	}
	return false
}

var optEq = eqOpts{skip: skipNotCarried}

func compareOptions(a, b *query.ProcessorOptions) error {
	va, vb := reflect.ValueOf(a).Elem(), reflect.ValueOf(b).Elem()
	for _, name := range optCarried {
		fa, fb := va.FieldByName(name), vb.FieldByName(name)
		if !fa.IsValid() {
			return ev.InconclusiveError("ProcessorOptions has no field " + name)
		}
		if err := eqValue(fa, fb, "Opt."+name, optEq); err != nil {
			return err
		}
	}
	// FillValue travels as a double: what must survive is the number (only meaningful for fill(<number>)).
	if a.Fill == influxql.NumberFill {
		var want float64
		switch v := a.FillValue.(type) {
		case float64:
			want = v
		case int64:
			want = float64(v)
		case nil:
			want = 0
		default:
			return ev.InconclusiveError(fmt.Sprintf("FillValue of type %T", v))
		}
		got, ok := b.FillValue.(float64)
		if !ok || math.Float64bits(got) != math.Float64bits(want) {
			return fmt.Errorf("Opt.FillValue: fill(%v) [%T] came back as %v [%T]", a.FillValue, a.FillValue, b.FillValue, b.FillValue)
		}
	}
	return nil
}

func roundTripOptions(opt *query.ProcessorOptions) (*query.ProcessorOptions, error) {
	buf, err := opt.MarshalBinary()
	if err != nil {
		return nil, fmt.Errorf("MarshalBinary: %v", err)
	}
	var got query.ProcessorOptions
	if err := got.UnmarshalBinary(buf); err != nil {
		return nil, fmt.Errorf("UnmarshalBinary rejects what MarshalBinary wrote: %v", err)
	}
	return &got, nil
}

// optCase is the replayable description of a ProcessorOptions value: the SELECT it was derived from
// (front-end parse + query.NewProcessorOptionsStmt, as the planner does) plus the scalar fields that
// later planning steps fill in.
type optCase struct {
	Kind    string          `json:"kind"`
	Stmt    string          `json:"stmt"`
	Params  []paramJSON     `json:"params,omitempty"`
	Expr    string          `json:"expr,omitempty"`      // field expression text (front-end syntax)
	ValCond string          `json:"val_cond,omitempty"`  // value condition text
	Extra   json.RawMessage `json:"extra,omitempty"`     // optExtra
	Remote  json.RawMessage `json:"remote,omitempty"`    // remoteExtra (remote_query only)
}

type msrJSON struct {
	Database, RetentionPolicy, Name, Regex, SystemIterator string
	IsTarget, IsTimeSorted                                 bool
	EngineType                                             uint32
	Index                                                  *influxql.IndexRelation
	Obs                                                    *obs.ObsOptions
}

type optExtra struct {
	Name                                                                        string
	Aux                                                                         []influxql.VarRef
	Sources                                                                     []msrJSON
	StartTime, EndTime                                                          int64
	MaxSeriesN, ChunkSize, MaxParallel                                          int
	Query                                                                       string
	HintType, EnableBinaryTreeMerge                                             int64
	QueryId                                                                     uint64
	SeriesKey                                                                   []byte
	LogQueryCurrId                                                              string
	IterID                                                                      int32
	IncQuery, PromQuery, PromRemoteRead, Without, Dedupe, StripName, Ordered    bool
	HasFieldWildcard, GroupByAllDims                                            bool
	Step, Range, LookBackDelta, QueryOffset                                     int64
	ExtraGroupBy                                                                []string
	SortFields                                                                  []sortJSON
}

type sortJSON struct {
	Name string
	Asc  bool
}

func genString(t *rapid.T, label string) string {
	switch rapid.IntRange(0, 5).Draw(t, label+"k") {
	case 0:
		return ""
	case 1:
		return rapid.String().Draw(t, label)
	case 2:
		return rapid.SampledFrom(quotedIdentPieces).Draw(t, label+"p") + rapid.SampledFrom(bareIdents).Draw(t, label+"q")
	default:
		return rapid.SampledFrom(bareIdents).Draw(t, label)
	}
}

var hostileI64 = []int64{0, 1, -1, math.MaxInt64, math.MinInt64, influxql.MinTime, influxql.MaxTime, 1 << 53, 1600000000000000000}

func genI64(t *rapid.T, label string) int64 {
	return rapid.OneOf(rapid.SampledFrom(hostileI64), rapid.Int64(), rapid.Int64Range(-1000, 1000)).Draw(t, label)
}

func genNonNegInt(t *rapid.T, label string) int {
	return rapid.OneOf(rapid.IntRange(0, 10), rapid.IntRange(0, math.MaxInt32), rapid.SampledFrom([]int{0, math.MaxInt64})).Draw(t, label)
}

func genMeasurement(t *rapid.T) msrJSON {
	m := msrJSON{
		Database:        genString(t, "db"),
		RetentionPolicy: genString(t, "rp"),
		Name:            genString(t, "mst"),
		IsTarget:        rapid.Bool().Draw(t, "isTarget"),
		IsTimeSorted:    rapid.Bool().Draw(t, "isTimeSorted"),
		EngineType:      uint32(rapid.SampledFrom([]config.EngineType{config.TSSTORE, config.COLUMNSTORE}).Draw(t, "engine")),
	}
	switch rapid.IntRange(0, 5).Draw(t, "mstKind") {
	case 0:
		m.Name = ""
		m.Regex = rapid.SampledFrom([]string{"cpu.*", "^a/b$", `\d+`, "a|b", `x\/y`, "(?i)mem", ""}).Draw(t, "mstRegex")
	case 1:
		m.SystemIterator = rapid.SampledFrom([]string{"_series", "_fieldKeys", "_tagKeys"}).Draw(t, "sysiter")
	}
	if rapid.IntRange(0, 3).Draw(t, "hasIndex") == 0 {
		ir := &influxql.IndexRelation{Rid: rapid.Uint32().Draw(t, "rid")}
		n := rapid.IntRange(0, 3).Draw(t, "nidx")
		for i := 0; i < n; i++ {
			ir.Oids = append(ir.Oids, rapid.Uint32().Draw(t, "oid"))
			ir.IndexNames = append(ir.IndexNames, rapid.SampledFrom([]string{"bloomfilter", "text", "field", "timecluster", "minmax"}).Draw(t, "idxname"))
			ir.IndexList = append(ir.IndexList, &influxql.IndexList{IList: rapid.SliceOfN(rapid.SampledFrom(bareIdents), 0, 3).Draw(t, "ilist")})
			switch rapid.IntRange(0, 2).Draw(t, "ioptKind") {
			case 0:
				ir.IndexOptions = append(ir.IndexOptions, nil)
			default:
				no := rapid.IntRange(0, 2).Draw(t, "nopts")
				ios := &influxql.IndexOptions{}
				for j := 0; j < no; j++ {
					ios.Options = append(ios.Options, &influxql.IndexOption{
						Tokens:              rapid.SampledFrom([]string{"", " ", ",;", " \t,:"}).Draw(t, "tokens"),
						Tokenizers:          rapid.SampledFrom([]string{"", "standard", "ip"}).Draw(t, "tokenizers"),
						TimeClusterDuration: time.Duration(genI64(t, "tcd")),
					})
				}
				ir.IndexOptions = append(ir.IndexOptions, ios)
			}
		}
		m.Index = ir
	}
	if rapid.IntRange(0, 3).Draw(t, "hasObs") == 0 {
		m.Obs = &obs.ObsOptions{Enabled: rapid.Bool().Draw(t, "obsEn"), BucketName: genString(t, "bucket"), Endpoint: genString(t, "endpoint"), Ak: genString(t, "ak"), Sk: genString(t, "sk"), BasePath: genString(t, "basepath")}
	}
	return m
}

func (m msrJSON) build() (*influxql.Measurement, error) {
	out := &influxql.Measurement{Database: m.Database, RetentionPolicy: m.RetentionPolicy, Name: m.Name, SystemIterator: m.SystemIterator,
		IsTarget: m.IsTarget, IsTimeSorted: m.IsTimeSorted, EngineType: config.EngineType(m.EngineType), IndexRelation: m.Index, ObsOptions: m.Obs}
	if m.Regex != "" {
		re, err := regexp.Compile(m.Regex)
		if err != nil {
			return nil, err
		}
		out.Regex = &influxql.RegexLiteral{Val: re}
	}
	return out, nil
}

var varRefTypes = []influxql.DataType{influxql.Unknown, influxql.Float, influxql.Integer, influxql.String, influxql.Boolean, influxql.Tag, influxql.AnyField, influxql.Unsigned, influxql.Time, influxql.Duration}

func genExtra(t *rapid.T) optExtra {
	x := optExtra{
		Name:                  genString(t, "optName"),
		StartTime:             genI64(t, "start"),
		EndTime:               genI64(t, "end"),
		MaxSeriesN:            genNonNegInt(t, "maxSeries"),
		ChunkSize:             genNonNegInt(t, "chunkSize"),
		MaxParallel:           genNonNegInt(t, "maxParallel"),
		Query:                 genString(t, "queryText"),
		HintType:              rapid.Int64Range(0, 6).Draw(t, "hint"),
		EnableBinaryTreeMerge: rapid.Int64Range(0, 2).Draw(t, "btm"),
		QueryId:               rapid.Uint64().Draw(t, "qid"),
		SeriesKey:             rapid.SliceOfN(rapid.Byte(), 0, 24).Draw(t, "seriesKey"),
		LogQueryCurrId:        genString(t, "logId"),
		IterID:                rapid.Int32().Draw(t, "iterId"),
		IncQuery:              rapid.Bool().Draw(t, "incQuery"),
		PromQuery:             rapid.Bool().Draw(t, "prom"),
		PromRemoteRead:        rapid.Bool().Draw(t, "promRR"),
		Without:               rapid.Bool().Draw(t, "without"),
		Dedupe:                rapid.Bool().Draw(t, "dedupe"),
		StripName:             rapid.Bool().Draw(t, "strip"),
		Ordered:               rapid.Bool().Draw(t, "ordered"),
		HasFieldWildcard:      rapid.Bool().Draw(t, "fieldWildcard"),
		GroupByAllDims:        rapid.Bool().Draw(t, "allDims"),
		Step:                  genI64(t, "step"),
		Range:                 genI64(t, "range"),
		LookBackDelta:         genI64(t, "lookback"),
		QueryOffset:           genI64(t, "qoffset"),
	}
	na := rapid.IntRange(0, 4).Draw(t, "naux")
	for i := 0; i < na; i++ {
		x.Aux = append(x.Aux, influxql.VarRef{Val: genString(t, "auxName"), Type: rapid.SampledFrom(varRefTypes).Draw(t, "auxType")})
	}
	ns := rapid.IntRange(0, 3).Draw(t, "nsrc")
	for i := 0; i < ns; i++ {
		x.Sources = append(x.Sources, genMeasurement(t))
	}
	x.ExtraGroupBy = rapid.SliceOfN(rapid.SampledFrom(bareIdents), 0, 3).Draw(t, "groupBy")
	nsf := rapid.IntRange(0, 3).Draw(t, "nsort")
	for i := 0; i < nsf; i++ {
		x.SortFields = append(x.SortFields, sortJSON{Name: rapid.SampledFrom(append([]string{"time", "a.b"}, bareIdents...)).Draw(t, "sortName"), Asc: rapid.Bool().Draw(t, "sortAsc")})
	}
	return x
}

// buildOptions derives the options from the statement the way the planner does and applies the extras.
func buildOptions(oc optCase) (*query.ProcessorOptions, string, error) {
	params, err := paramsFromJSON(oc.Params)
	if err != nil {
		return nil, "", ev.InconclusiveError(err.Error())
	}
	st, err := yaccSelect(oc.Stmt, params)
	if err != nil {
		return nil, "statement rejected: " + err.Error(), nil
	}
	opt, err := query.NewProcessorOptionsStmt(st, query.SelectOptions{})
	if err != nil {
		return nil, "NewProcessorOptionsStmt: " + err.Error(), nil
	}
	if oc.Expr != "" {
		fs, err := yaccSelect("SELECT "+oc.Expr+" FROM m", params)
		if err != nil || len(fs.Fields) != 1 {
			return nil, "expr rejected", nil
		}
		opt.Expr = fs.Fields[0].Expr
	}
	if oc.ValCond != "" {
		cs, err := yaccSelect("SELECT v FROM m WHERE "+oc.ValCond, params)
		if err != nil || isNilExpr(cs.Condition) {
			return nil, "value condition rejected", nil
		}
		opt.ValueCondition = cs.Condition
	}
	var x optExtra
	if len(oc.Extra) > 0 {
		if err := json.Unmarshal(oc.Extra, &x); err != nil {
			return nil, "", ev.InconclusiveError(err.Error())
		}
	}
	opt.Name, opt.Aux = x.Name, x.Aux
	for _, m := range x.Sources {
		mm, err := m.build()
		if err != nil {
			return nil, "", ev.InconclusiveError(err.Error())
		}
		opt.Sources = append(opt.Sources, mm)
	}
	opt.StartTime, opt.EndTime = x.StartTime, x.EndTime
	opt.MaxSeriesN, opt.ChunkSize, opt.MaxParallel = x.MaxSeriesN, x.ChunkSize, x.MaxParallel
	opt.Query, opt.HintType, opt.EnableBinaryTreeMerge, opt.QueryId = x.Query, hybridqp.HintType(x.HintType), x.EnableBinaryTreeMerge, x.QueryId
	opt.SeriesKey, opt.LogQueryCurrId, opt.IterID = x.SeriesKey, x.LogQueryCurrId, x.IterID
	opt.IncQuery, opt.PromQuery, opt.PromRemoteRead, opt.Without = x.IncQuery, x.PromQuery, x.PromRemoteRead, x.Without
	opt.Dedupe, opt.StripName, opt.Ordered = x.Dedupe, x.StripName, x.Ordered
	opt.HasFieldWildcard, opt.GroupByAllDims = x.HasFieldWildcard, x.GroupByAllDims
	opt.Step, opt.Range, opt.LookBackDelta, opt.QueryOffset = time.Duration(x.Step), time.Duration(x.Range), time.Duration(x.LookBackDelta), time.Duration(x.QueryOffset)
	for _, k := range x.ExtraGroupBy {
		if opt.GroupBy == nil {
			opt.GroupBy = map[string]struct{}{}
		}
		opt.GroupBy[k] = struct{}{}
	}
	for _, sf := range x.SortFields {
		opt.SortFields = append(opt.SortFields, &influxql.SortField{Name: sf.Name, Ascending: sf.Asc})
	}
	if len(st.SortFields) > 0 && len(opt.SortFields) == 0 {
		opt.SortFields = st.SortFields
	}
	return &opt, "", nil
}

func optExprs(opt *query.ProcessorOptions) []influxql.Expr {
	var out []influxql.Expr
	for _, e := range []influxql.Expr{opt.Expr, opt.Condition, opt.ValueCondition} {
		if !isNilExpr(e) {
			out = append(out, e)
		}
	}
	return out
}

func optKnownClasses(opt *query.ProcessorOptions) []string {
	cls := knownClassesOf(optExprs(opt))
	for _, sf := range opt.SortFields {
		if influxql.IdentNeedsQuotes(sf.Name) {
			cls = append(cls, clsSortQuote)
		}
	}
	if v, ok := opt.FillValue.(int64); ok && opt.Fill == influxql.NumberFill && v != 0 {
		cls = append(cls, clsFillInt)
	}
	return cls
}

// clsFillInt: fill(5) gives FillValue int64(5); encodeProcessorOptions only copies a float64.
const clsFillInt = "integer_fill_value"

func checkOptCodec(oc optCase) (opt *query.ProcessorOptions, rejected string, err error) {
	opt, rejected, err = buildOptions(oc)
	if err != nil || rejected != "" {
		return nil, rejected, err
	}
	got, err := roundTripOptions(opt)
	if err != nil {
		return opt, "", err
	}
	return opt, "", compareOptions(opt, got)
}

func genOptCase(t *rapid.T, c *ev.Case) optCase {
	g := &gen{t: t, c: c, d: dialect{yacc: true, params: true}, params: map[string]interface{}{}}
	oc := optCase{Kind: "opt_codec"}
	oc.Stmt = g.selectStmt(rapid.SampledFrom([]int{0, 1, 1, 2}).Draw(t, "depth"), false)
	if g.chance("hasExpr", 60) {
		oc.Expr = g.value(rapid.IntRange(0, 2).Draw(t, "exprDepth")).s
	}
	if g.chance("hasValCond", 30) {
		oc.ValCond = g.cond(rapid.IntRange(0, 2).Draw(t, "vcDepth"))
	}
	oc.Params = paramsToJSON(g.params)
	x := genExtra(t)
	b, _ := json.Marshal(x)
	oc.Extra = b
	return oc
}

func recordOpt(c *ev.Case, opt *query.ProcessorOptions) {
	recordTree(c, mergeStats(optExprs(opt)))
	if !isNilExpr(opt.Condition) {
		c.Class("opt=condition")
	}
	if !isNilExpr(opt.Expr) {
		c.Class("opt=expr")
	}
	if !isNilExpr(opt.ValueCondition) {
		c.Class("opt=value_condition")
	}
	if len(opt.Sources) > 0 {
		c.Class("opt=sources")
	}
	if opt.Interval.Duration != 0 {
		c.Class("opt=interval")
	}
	if len(opt.Dimensions) > 0 {
		c.Class("opt=dimensions")
	}
	if opt.Location != nil {
		c.Class("opt=location")
	}
	if opt.Fill == influxql.NumberFill {
		c.Class(fmt.Sprintf("opt=fill_number_%T", opt.FillValue))
	}
	if len(opt.SortFields) > 0 {
		c.Class("opt=sort_fields")
	}
	if len(opt.Aux) > 0 {
		c.Class("opt=aux")
	}
	for _, s := range opt.Sources {
		m := s.(*influxql.Measurement)
		if m.Regex != nil {
			c.Class("opt=regex_source")
		}
		if m.IndexRelation != nil {
			c.Class("opt=index_relation")
		}
		if m.ObsOptions != nil {
			c.Class("opt=obs_options")
		}
	}
}

func TestOptCodec(t *testing.T) {
	rapid.Check(t, ev.Prop(prop, "opt_codec", func(t *rapid.T, c *ev.Case) {
		oc := genOptCase(t, c)
		opt, rejected, _ := buildOptions(oc)
		if rejected != "" || opt == nil {
			c.Class("rejected")
			return
		}
		c.Class("accepted")
		recordOpt(c, opt)
		skip := false
		for _, cls := range optKnownClasses(opt) {
			if !classIncluded(cls) {
				c.Excluded("tree:" + cls)
				skip = true
			}
		}
		if skip {
			return
		}
		if _, _, err := checkOptCodec(oc); err != nil {
			c.Failf(t, prop, oc, "%v", err)
		}
		c.Nontrivial(ev.Hash(oc))
		c.Sample(map[string]any{"kind": "opt_codec", "stmt": oc.Stmt, "expr": oc.Expr, "val_cond": oc.ValCond})
	}))
}

// ---------------------------------------------------------------- RemoteQuery

type remoteExtra struct {
	Database string
	PtID     uint32
	NodeID   uint64
	ShardIDs []uint64
	PtQuerys []executor.PtQuery
	Analyze  bool
	Node     []byte
	MstShard [][]uint64 // one MultiMstInfo per entry, all with the same options
}

func genRemote(t *rapid.T) remoteExtra {
	r := remoteExtra{
		Database: genString(t, "rdb"),
		PtID:     rapid.Uint32().Draw(t, "ptid"),
		NodeID:   rapid.Uint64().Draw(t, "nodeid"),
		ShardIDs: rapid.SliceOfN(rapid.Uint64(), 0, 5).Draw(t, "shards"),
		Analyze:  rapid.Bool().Draw(t, "analyze"),
		Node:     rapid.SliceOfN(rapid.Byte(), 0, 64).Draw(t, "nodeBytes"),
	}
	np := rapid.IntRange(0, 3).Draw(t, "nptq")
	for i := 0; i < np; i++ {
		pq := executor.PtQuery{PtID: rapid.Uint32().Draw(t, "pqid")}
		ns := rapid.IntRange(0, 3).Draw(t, "nsi")
		for j := 0; j < ns; j++ {
			pq.ShardInfos = append(pq.ShardInfos, executor.ShardInfo{ID: rapid.Uint64().Draw(t, "sid"), Path: genString(t, "spath"), Version: rapid.Uint32().Draw(t, "sver")})
		}
		r.PtQuerys = append(r.PtQuerys, pq)
	}
	nm := rapid.IntRange(0, 2).Draw(t, "nmst")
	for i := 0; i < nm; i++ {
		r.MstShard = append(r.MstShard, rapid.SliceOfN(rapid.Uint64(), 0, 3).Draw(t, "mstShards"))
	}
	return r
}

func checkRemoteQuery(oc optCase) (opt *query.ProcessorOptions, rejected string, err error) {
	opt, rejected, err = buildOptions(oc)
	if err != nil || rejected != "" {
		return nil, rejected, err
	}
	var r remoteExtra
	if err := json.Unmarshal(oc.Remote, &r); err != nil {
		return nil, "", ev.InconclusiveError(err.Error())
	}
	rq := &executor.RemoteQuery{Database: r.Database, PtID: r.PtID, NodeID: r.NodeID, ShardIDs: r.ShardIDs, PtQuerys: r.PtQuerys, Opt: *opt, Analyze: r.Analyze, Node: r.Node}
	for _, ids := range r.MstShard {
		rq.MstInfos = append(rq.MstInfos, &executor.MultiMstInfo{ShardIds: ids, Opt: *opt})
	}
	// the way the client sends it (executor/rpc_client.go) and the store receives it
	msg := rpc.NewMessage(executor.QueryMessage, rq)
	msg.SetClientID(r.NodeID ^ 0x5a5a)
	buf, merr := msg.Marshal(nil)
	if merr != nil {
		return opt, "", fmt.Errorf("Marshal: %v", merr)
	}
	in := rpc.NewMessageWithHandler(executor.NewRPCMessage)
	if uerr := in.Unmarshal(buf); uerr != nil {
		return opt, "", fmt.Errorf("Unmarshal rejects what Marshal wrote: %v", uerr)
	}
	if in.Type() != executor.QueryMessage || in.ClientID() != r.NodeID^0x5a5a {
		return opt, "", fmt.Errorf("message envelope: type %d client %d", in.Type(), in.ClientID())
	}
	got, ok := in.Data().(*executor.RemoteQuery)
	if !ok {
		return opt, "", fmt.Errorf("message carries %T", in.Data())
	}
	for _, f := range []string{"Database", "PtID", "NodeID", "ShardIDs", "PtQuerys", "Analyze", "Node"} {
		if e := eqValue(reflect.ValueOf(rq).Elem().FieldByName(f), reflect.ValueOf(got).Elem().FieldByName(f), "RemoteQuery."+f, optEq); e != nil {
			return opt, "", e
		}
	}
	if e := compareOptions(&rq.Opt, &got.Opt); e != nil {
		return opt, "", fmt.Errorf("RemoteQuery.%v", e)
	}
	if len(rq.MstInfos) != len(got.MstInfos) {
		return opt, "", fmt.Errorf("RemoteQuery.MstInfos: %d vs %d", len(rq.MstInfos), len(got.MstInfos))
	}
	for i := range rq.MstInfos {
		if e := eqValue(reflect.ValueOf(rq.MstInfos[i].ShardIds), reflect.ValueOf(got.MstInfos[i].ShardIds), fmt.Sprintf("RemoteQuery.MstInfos[%d].ShardIds", i), optEq); e != nil {
			return opt, "", e
		}
		if e := compareOptions(&rq.MstInfos[i].Opt, &got.MstInfos[i].Opt); e != nil {
			return opt, "", fmt.Errorf("RemoteQuery.MstInfos[%d].%v", i, e)
		}
	}
	return opt, "", nil
}

func TestRemoteQuery(t *testing.T) {
	rapid.Check(t, ev.Prop(prop, "remote_query", func(t *rapid.T, c *ev.Case) {
		oc := genOptCase(t, c)
		oc.Kind = "remote_query"
		r := genRemote(t)
		b, _ := json.Marshal(r)
		oc.Remote = b
		opt, rejected, _ := buildOptions(oc)
		if rejected != "" || opt == nil {
			c.Class("rejected")
			return
		}
		c.Class("accepted")
		recordOpt(c, opt)
		if len(r.PtQuerys) > 0 {
			c.Class("rq=pt_querys")
		}
		if len(r.MstShard) > 0 {
			c.Class("rq=multi_mst")
		}
		if len(r.ShardIDs) > 0 {
			c.Class("rq=shard_ids")
		}
		skip := false
		for _, cls := range optKnownClasses(opt) {
			if !classIncluded(cls) {
				c.Excluded("tree:" + cls)
				skip = true
			}
		}
		if skip {
			return
		}
		if _, _, err := checkRemoteQuery(oc); err != nil {
			c.Failf(t, prop, oc, "%v", err)
		}
		c.Nontrivial(ev.Hash(oc))
		c.Sample(map[string]any{"kind": "remote_query", "stmt": oc.Stmt, "shards": len(r.ShardIDs), "pts": len(r.PtQuerys), "msts": len(r.MstShard)})
	}))
}

func replayOpt(raw json.RawMessage) error {
	var oc optCase
	if err := json.Unmarshal(raw, &oc); err != nil {
		return ev.InconclusiveError(err.Error())
	}
	var rejected string
	var err error
	switch oc.Kind {
	case "opt_codec":
		_, rejected, err = checkOptCodec(oc)
	case "remote_query":
		_, rejected, err = checkRemoteQuery(oc)
	default:
		return ev.InconclusiveError("kind " + oc.Kind)
	}
	if rejected != "" {
		return ev.InconclusiveError("recorded case is not accepted any more: " + rejected)
	}
	return err
}

var _ = strings.Contains
