package c12

import (
	"encoding/json"
	"fmt"
	"math"
	"reflect"
	"sort"
	"strconv"
	"strings"
	"testing"
	"time"

	"github.com/openGemini/openGemini/engine/hybridqp"
	"github.com/openGemini/openGemini/lib/util/lifted/influx/influxql"
	"github.com/openGemini/openGemini/lib/util/lifted/influx/query"
	"pgregory.net/rapid"
	"verif/internal/ev"
)

const prop = "C12"

func TestMain(m *testing.M) { ev.Main(m) }

// ---------------------------------------------------------------- parser entry points

// yaccQuery parses the way the HTTP handler does (lib/util/lifted/influx/httpd/handler.go getSqlQuery).
func yaccQuery(text string, params map[string]interface{}) (q *influxql.Query, err error) {
	defer func() {
		if r := recover(); r != nil {
			q, err = nil, fmt.Errorf("front-end parser panic: %v", r)
		}
	}()
	p := influxql.NewParser(strings.NewReader(text))
	defer p.Release()
	if params != nil {
		p.SetParams(params)
	}
	yy := influxql.NewYyParser(p.GetScanner(), p.GetPara())
	yy.ParseTokens()
	q, err = yy.GetQuery()
	if err != nil {
		return nil, err
	}
	if q == nil || len(q.Statements) == 0 {
		return nil, fmt.Errorf("no statement")
	}
	return q, nil
}

func yaccSelect(text string, params map[string]interface{}) (*influxql.SelectStatement, error) {
	q, err := yaccQuery(text, params)
	if err != nil {
		return nil, err
	}
	if len(q.Statements) != 1 {
		return nil, fmt.Errorf("%d statements", len(q.Statements))
	}
	st, ok := q.Statements[0].(*influxql.SelectStatement)
	if !ok || st == nil {
		return nil, fmt.Errorf("not a select statement: %T", q.Statements[0])
	}
	return st, nil
}

// parseExprFull is influxql.ParseExpr (what the store calls) plus the information whether the whole
// text was consumed (ParseExpr itself silently stops at the first token it does not know).
func parseExprFull(text string) (e influxql.Expr, full bool, err error) {
	p := influxql.NewParser(strings.NewReader(text))
	defer p.Release()
	e, err = p.ParseExpr()
	if err != nil {
		return nil, false, err
	}
	tok, _, _ := p.ScanIgnoreWhitespace()
	return e, tok == influxql.EOF, nil
}

func isNilExpr(e influxql.Expr) bool {
	if e == nil {
		return true
	}
	v := reflect.ValueOf(e)
	return v.Kind() == reflect.Ptr && v.IsNil()
}

// ---------------------------------------------------------------- bound parameters in replay files

type paramJSON struct {
	Name string `json:"name"`
	Type string `json:"type"` // int | float | string | bool
	Val  string `json:"val"`  // float: hex bits
}

func paramsToJSON(m map[string]interface{}) []paramJSON {
	names := make([]string, 0, len(m))
	for k := range m {
		names = append(names, k)
	}
	sort.Strings(names)
	out := make([]paramJSON, 0, len(m))
	for _, k := range names {
		switch v := m[k].(type) {
		case int64:
			out = append(out, paramJSON{k, "int", strconv.FormatInt(v, 10)})
		case float64:
			out = append(out, paramJSON{k, "float", strconv.FormatFloat(v, 'g', -1, 64)})
		case bool:
			out = append(out, paramJSON{k, "bool", strconv.FormatBool(v)})
		case string:
			out = append(out, paramJSON{k, "string", v})
		}
	}
	return out
}

func paramsFromJSON(ps []paramJSON) (map[string]interface{}, error) {
	if len(ps) == 0 {
		return nil, nil
	}
	m := map[string]interface{}{}
	for _, p := range ps {
		switch p.Type {
		case "int":
			v, err := strconv.ParseInt(p.Val, 10, 64)
			if err != nil {
				return nil, err
			}
			m[p.Name] = v
		case "float":
			v, err := strconv.ParseFloat(p.Val, 64)
			if err != nil {
				return nil, err
			}
			m[p.Name] = v
		case "bool":
			m[p.Name] = p.Val == "true"
		case "string":
			m[p.Name] = p.Val
		default:
			return nil, fmt.Errorf("param type %q", p.Type)
		}
	}
	return m, nil
}

type textCase struct {
	Kind   string      `json:"kind"`
	Text   string      `json:"text"`
	Params []paramJSON `json:"params,omitempty"`
}

// ---------------------------------------------------------------- the checks (shared with TestReplay)

type outcome struct {
	rejected string // non-empty: the first parse did not accept the text (not in the domain)
	tree     influxql.Expr
	trees    []influxql.Expr
	printed  string
	parts    int
}

var looseEq = eqOpts{}

// checkExprRD: ParseExpr(text) = e1; ParseExpr(e1.String()) must be e1.
func checkExprRD(text string) (outcome, error) {
	e1, full, err := parseExprFull(text)
	if err != nil {
		return outcome{rejected: err.Error()}, nil
	}
	if !full {
		return outcome{rejected: "parser stopped before the end of the text"}, nil
	}
	if isNilExpr(e1) {
		return outcome{rejected: "nil expression"}, nil
	}
	return reparseExpr(e1)
}

// reparseExpr prints e1 and reads it back with the store-side parser.
func reparseExpr(e1 influxql.Expr) (outcome, error) {
	out := outcome{tree: e1}
	out.printed = e1.String()
	e2, full, err := parseExprFull(out.printed)
	if err != nil {
		return out, fmt.Errorf("printed form %q is rejected by ParseExpr: %v", clip(out.printed), err)
	}
	if derr := sameTree(e1, e2, looseEq); derr != nil {
		return out, fmt.Errorf("printed form %q re-parses to a different tree: %v [reprinted: %q]", clip(out.printed), derr, clip(e2.String()))
	}
	if !full {
		return out, fmt.Errorf("ParseExpr stops before the end of the printed form %q", clip(out.printed))
	}
	return out, nil
}

// checkCondShip: the front end parses SELECT ... WHERE <text>; the condition travels to the store as
// Condition.String() and is read there with influxql.ParseExpr (query/processor_codec.go).
func checkCondShip(text string, params map[string]interface{}) (outcome, error) {
	st, err := yaccSelect("SELECT v FROM m WHERE "+text, params)
	if err != nil {
		return outcome{rejected: err.Error()}, nil
	}
	if isNilExpr(st.Condition) || len(st.Sources) != 1 || len(st.Fields) != 1 {
		return outcome{rejected: "text did not stay inside the WHERE clause"}, nil
	}
	if m, ok := st.Sources[0].(*influxql.Measurement); !ok || m.Name != "m" {
		return outcome{rejected: "text did not stay inside the WHERE clause"}, nil
	}
	if len(st.Dimensions) != 0 || len(st.SortFields) != 0 || st.Limit != 0 || st.Offset != 0 || st.SLimit != 0 || st.SOffset != 0 || st.Location != nil || st.Fill != influxql.NullFill {
		return outcome{rejected: "text did not stay inside the WHERE clause"}, nil
	}
	return reparseExpr(st.Condition)
}

// checkPlannedCond: as checkCondShip, but the condition is the one the planner keeps after query.Compile
// (time range split off by ConditionExpr, constants reduced, regex conditions rewritten): that one is
// what ProcessorOptions.Condition holds when it is marshalled.
func checkPlannedCond(text string, params map[string]interface{}) (outcome, error) {
	st, err := yaccSelect("SELECT v FROM m WHERE "+text, params)
	if err != nil {
		return outcome{rejected: err.Error()}, nil
	}
	if isNilExpr(st.Condition) || len(st.Sources) != 1 || len(st.Dimensions) != 0 || len(st.SortFields) != 0 || st.Limit != 0 || st.Fill != influxql.NullFill {
		return outcome{rejected: "text did not stay inside the WHERE clause"}, nil
	}
	var cerr error
	func() {
		defer func() {
			if r := recover(); r != nil {
				cerr = fmt.Errorf("compile panic: %v", r)
			}
		}()
		_, _, cerr = query.Compile(st, query.CompileOptions{Now: time.Unix(1700000000, 0).UTC()})
	}()
	if cerr != nil {
		return outcome{rejected: "compile: " + cerr.Error()}, nil
	}
	if isNilExpr(st.Condition) {
		return outcome{rejected: "no condition left after planning"}, nil
	}
	return reparseExpr(st.Condition)
}

// checkFieldsShip: the field list travels as Fields.String() inside the QuerySchema message and is read
// with hybridqp.ParseFields (query/processor_codec.go DecodeQuerySchema).
func checkFieldsShip(text string, params map[string]interface{}) (outcome, error) {
	st, err := yaccSelect("SELECT "+text+" FROM m", params)
	if err != nil {
		return outcome{rejected: err.Error()}, nil
	}
	if len(st.Fields) == 0 || len(st.Sources) != 1 || !isNilExpr(st.Condition) || st.Target != nil {
		return outcome{rejected: "text did not stay inside the field list"}, nil
	}
	out := outcome{}
	for _, f := range st.Fields {
		out.trees = append(out.trees, f.Expr)
	}
	out.printed = st.Fields.String()
	f2, err := hybridqp.ParseFields(out.printed)
	if err != nil {
		return out, fmt.Errorf("printed field list %q is rejected by hybridqp.ParseFields: %v", clip(out.printed), err)
	}
	if derr := sameTree(st.Fields, f2, looseEq); derr != nil {
		return out, fmt.Errorf("printed field list %q re-parses to different fields: %v [reprinted: %q]", clip(out.printed), derr, clip(f2.String()))
	}
	// every field also travels inside hybridqp.ExprOptions (expression + output column reference)
	for i, f := range st.Fields {
		if _, isWildcard := f.Expr.(*influxql.Wildcard); isWildcard {
			continue
		}
		if _, isRegex := f.Expr.(*influxql.RegexLiteral); isRegex {
			continue
		}
		eo := hybridqp.ExprOptions{Expr: f.Expr, Ref: influxql.VarRef{Val: f.Name(), Type: influxql.Float}}
		if strings.EqualFold(eo.Ref.Val, "inf") || strings.EqualFold(eo.Ref.Val, "nan") || hasCtrl(eo.Ref.Val) {
			continue // known classes, counted through the tree predicates when they occur in expressions
		}
		var back hybridqp.ExprOptions
		if err := back.Unmarshal(eo.Marshal()); err != nil {
			return out, fmt.Errorf("field %d: ExprOptions.Unmarshal rejects what Marshal wrote (%q / %q): %v", i, clip(eo.Expr.String()), eo.Ref.String(), err)
		}
		if derr := sameTree(eo.Expr, back.Expr, looseEq); derr != nil {
			return out, fmt.Errorf("field %d: ExprOptions.Expr %q comes back different: %v", i, clip(eo.Expr.String()), derr)
		}
		if derr := sameTree(eo.Ref, back.Ref, looseEq); derr != nil {
			return out, fmt.Errorf("field %d: ExprOptions.Ref %q comes back different: %v", i, eo.Ref.String(), derr)
		}
	}
	return out, nil
}

// ---------------------------------------------------------------- rapid properties

func recordTree(c *ev.Case, st *treeStats) {
	c.Class(depthClass(st.depth))
	for k := range st.kinds {
		c.Class("node=" + k)
	}
	for k := range st.ops {
		c.Class("op=" + k)
	}
	if st.quotedIdent {
		c.Class("has=quoted_ident")
	}
	if st.escapedStr {
		c.Class("has=escaped_string")
	}
	if st.regex {
		c.Class("has=regex")
	}
	if st.integralFlt {
		c.Class("has=integral_float")
	}
	if st.parens > 0 {
		c.Class("has=parens")
	}
	if st.lostGrouping {
		c.Class("has=grouping_without_parens")
	}
}

func mergeStats(trees []influxql.Expr) *treeStats {
	all := &treeStats{kinds: map[string]bool{}, ops: map[string]bool{}}
	for _, e := range trees {
		st := statsOf(e)
		all.depth = max(all.depth, st.depth)
		all.nodes += st.nodes
		all.quotedIdent = all.quotedIdent || st.quotedIdent
		all.escapedStr = all.escapedStr || st.escapedStr
		all.regex = all.regex || st.regex
		all.integralFlt = all.integralFlt || st.integralFlt
		all.parens += st.parens
		all.lostGrouping = all.lostGrouping || st.lostGrouping
		for k := range st.kinds {
			all.kinds[k] = true
		}
		for k := range st.ops {
			all.ops[k] = true
		}
	}
	return all
}

func finish(t *rapid.T, c *ev.Case, kind, text string, params map[string]interface{}, out outcome, err error) {
	tc := textCase{Kind: kind, Text: text, Params: paramsToJSON(params)}
	if out.rejected != "" {
		c.Class("rejected")
		if strings.Contains(out.rejected, "panic") {
			// not this property (the text never became a tree), but worth knowing: kept as a note in the evidence
			c.Class("rejected=panic_in_first_parse_or_planning")
			ev.Note(kind, "example_panic", map[string]any{"text": text, "params": tc.Params, "what": clip(out.rejected)})
		}
		return
	}
	c.Class("accepted")
	trees := out.trees
	if out.tree != nil {
		trees = append(trees, out.tree)
	}
	st := mergeStats(trees)
	recordTree(c, st)
	if len(params) > 0 {
		c.Class("has=bound_param")
	}
	skip := false
	for _, cls := range knownClassesOfR(trees, kind != "expr_rd") {
		if !classIncluded(cls) {
			c.Excluded("tree:" + cls)
			skip = true
		}
	}
	if skip {
		return
	}
	if err != nil {
		c.Failf(t, prop, tc, "%v", err)
	}
	if st.nontrivial() {
		c.Nontrivial(kind + "|" + text + "|" + ev.Hash(tc.Params))
		c.Sample(map[string]any{"kind": kind, "text": text, "printed": out.printed})
	}
}

func depthDraw(t *rapid.T) int {
	// mostly shallow, sometimes deep
	return rapid.SampledFrom([]int{0, 1, 1, 2, 2, 2, 3, 3, 4}).Draw(t, "depth")
}

func TestExprRD(t *testing.T) {
	rapid.Check(t, ev.Prop(prop, "expr_rd", func(t *rapid.T, c *ev.Case) {
		g := &gen{t: t, c: c, d: dialect{}}
		text := g.exprRD(depthDraw(t))
		out, err := checkExprRD(text)
		finish(t, c, "expr_rd", text, nil, out, err)
	}))
}

func TestCondShip(t *testing.T) {
	rapid.Check(t, ev.Prop(prop, "cond_ship", func(t *rapid.T, c *ev.Case) {
		g := &gen{t: t, c: c, d: dialect{yacc: true, params: true}, params: map[string]interface{}{}}
		text := g.cond(depthDraw(t))
		out, err := checkCondShip(text, g.params)
		finish(t, c, "cond_ship", text, g.params, out, err)
	}))
}

func TestPlannedCond(t *testing.T) {
	rapid.Check(t, ev.Prop(prop, "planned_cond", func(t *rapid.T, c *ev.Case) {
		g := &gen{t: t, c: c, d: dialect{yacc: true, params: true, planned: true}, params: map[string]interface{}{}}
		text := g.cond(depthDraw(t))
		out, err := checkPlannedCond(text, g.params)
		if strings.HasPrefix(out.rejected, "compile:") {
			c.Class("rejected=by_compile")
			c.Class("rejected=by_compile:" + clip(strings.SplitN(strings.TrimPrefix(out.rejected, "compile: "), ":", 2)[0]))
		} else if out.rejected != "" {
			c.Class("rejected:" + clip(strings.SplitN(out.rejected, ":", 2)[0]))
		}
		finish(t, c, "planned_cond", text, g.params, out, err)
	}))
}

func TestFieldsShip(t *testing.T) {
	rapid.Check(t, ev.Prop(prop, "fields_ship", func(t *rapid.T, c *ev.Case) {
		g := &gen{t: t, c: c, d: dialect{yacc: true, fields: true, params: true}, params: map[string]interface{}{}}
		text := g.fieldList(rapid.SampledFrom([]int{0, 1, 1, 2, 2, 3}).Draw(t, "depth"))
		out, err := checkFieldsShip(text, g.params)
		finish(t, c, "fields_ship", text, g.params, out, err)
	}))
}

// ---------------------------------------------------------------- replay helpers

func replayText(raw json.RawMessage) error {
	var tc textCase
	if err := json.Unmarshal(raw, &tc); err != nil {
		return ev.InconclusiveError(err.Error())
	}
	params, err := paramsFromJSON(tc.Params)
	if err != nil {
		return ev.InconclusiveError(err.Error())
	}
	var out outcome
	switch tc.Kind {
	case "expr_rd":
		out, err = checkExprRD(tc.Text)
	case "cond_ship":
		out, err = checkCondShip(tc.Text, params)
	case "fields_ship":
		out, err = checkFieldsShip(tc.Text, params)
	case "planned_cond":
		out, err = checkPlannedCond(tc.Text, params)
	case "stmt_rt":
		out, err = checkStmt(tc.Text, params)
	default:
		return ev.InconclusiveError(fmt.Sprintf("no replayer for kind %q", tc.Kind))
	}
	if out.rejected != "" {
		return ev.InconclusiveError("the parser does not accept the recorded text any more: " + out.rejected)
	}
	return err
}

var _ = math.MaxInt
