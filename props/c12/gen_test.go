package c12

// Grammar-driven generators of InfluxQL *text*. The domain of every check is "what the parser
// accepts": text is generated, parsed, and a rejected text is only counted (class "rejected").
// The generators are written so that rejections stay rare.

import (
	"fmt"
	"math"
	"os"
	"strconv"
	"strings"

	"github.com/openGemini/openGemini/lib/util/lifted/influx/influxql"
	"pgregory.net/rapid"
	"verif/internal/ev"
)

// ---------------------------------------------------------------- known-defect classes
//
// Classes of inputs on which the pinned tree violates the property (each has a minimal replay under
// replays/C12/). They are left out of the main generators by construction and counted with
// c.Excluded (unless listed in fixedClasses below). VERIF_C12_INCLUDE=class1,class2 (or "all") puts classes back, e.g. after a fix.
const (
	clsIntegralFloat = "integral_float_literal"  // 2.0 prints as 2 and re-parses as an integer (or not at all below -2^63)
	clsAndOverOr     = "or_before_and_unparenth" // yacc: AND and OR share one precedence level, printer adds no parentheses
	clsBitwise       = "bitwise_operator"        // & | ^ are not operators of the store-side parser
	clsInfNanIdent   = "identifier_inf_nan"      // a column called inf/nan re-parses as a number literal
	clsSubMicroDur   = "duration_below_1us"      // FormatDuration truncates to microseconds
	clsCaseWhen      = "case_when"               // CASE WHEN is printed but the store-side parser cannot read it
	clsYaccOnlyCast  = "cast_time_duration"      // ::time / ::duration are accepted by yacc only
	clsLikeArith     = "like_with_arithmetic"    // LIKE/MATCH bind tighter than arithmetic in the store-side parser
	clsCtrlCharParam = "control_char_in_string"  // \r, NUL ... (only reachable through bound parameters) are printed raw
	clsSignedOperand = "signed_operand_after_mul" // a * -b is built as a*(-1*b) without parentheses and re-read as (a*-1)*b
	clsRegexOperand  = "regex_slash_plain_operand" // a regex holding '/' that is not the right side of =~ / !~ is scanned without unescaping, printing doubles the backslash
	clsTimeLiteral   = "time_literal_left_in_condition" // a time predicate that planning cannot split off keeps a TimeLiteral, which is printed as a string
	clsDivAfterLit   = "division_after_non_identifier" // ('x') / b: planning drops the redundant parentheses; the scanner reads '/' after a string, boolean, duration or ::tag as a regex start
	clsCallNameQuote = "call_name_needs_quotes" // "my fn"(a): Call.String() prints the function name without quoting (no such function can be planned)
	clsMinDuration   = "duration_min_int64"       // a duration of -2^63 ns (only reachable by constant folding, 1ns * -9223372036854775808) prints as -9223372036854775808ns, whose magnitude no parser can read
	clsEmptyInSet    = "empty_string_in_set"      // IN ('') : the store-side set parser drops empty strings
)

var included = func() map[string]bool {
	m := map[string]bool{}
	for _, k := range strings.Split(os.Getenv("VERIF_C12_INCLUDE"), ",") {
		if k = strings.TrimSpace(k); k != "" {
			m[k] = true
		}
	}
	return m
}()

// fixedClasses: classes repaired in /repo by the named fix commit. They are part of the main campaigns
// again; their replays are regression cases.
var fixedClasses = map[string]string{
	clsSortQuote:    "bbab3de",
	clsBitwise:      "778bd99",
	clsFillInt:      "f29259e",
	clsQualifiedSrc: "506af7a",
	clsFillRD:       "d9fdb86",
	clsEmptyInSet:   "50496e6",
	clsSubMicroDur:  "f4048f1",
}

func classIncluded(cls string) bool { return fixedClasses[cls] != "" || included["all"] || included[cls] }

// ---------------------------------------------------------------- generator state

type dialect struct {
	yacc   bool // text is read by the yacc grammar (front end); otherwise by the recursive-descent parser
	fields bool // generating a SELECT field list (no comparison operators at top level)
	params bool // bound parameters may be used ($p0 ...)
	planned bool // text must also pass query.Compile: no calls in conditions, time predicates added
}

type gen struct {
	t      *rapid.T
	c      *ev.Case
	d      dialect
	params map[string]interface{}
	np     int
	noTime bool // planned dialect: the next comparison must not be a time predicate
}

func (g *gen) pick(label string, n int) int { return rapid.IntRange(0, n-1).Draw(g.t, label) }
func (g *gen) chance(label string, pct int) bool {
	return rapid.IntRange(0, 99).Draw(g.t, label) < pct
}

// allow reports whether a known-defect class may be generated; the draw that selected it has already
// happened, so including/excluding a class does not shift the rest of the case.
func (g *gen) allow(cls string) bool {
	if classIncluded(cls) {
		return true
	}
	g.c.Excluded(cls)
	return false
}

func (g *gen) sp() string {
	switch g.pick("ws", 12) {
	case 0:
		return "  "
	case 1:
		return "\t"
	case 2:
		return "\n"
	default:
		return " "
	}
}

// ---------------------------------------------------------------- identifiers

var bareIdents = []string{"a", "b", "c", "f1", "host", "usage_idle", "v", "x9", "_p", "T", "Value", "region", "time", "cpu0", "m_2", "abc_DEF"}
var keywordIdents = []string{"select", "from", "name", "key", "user", "duration", "default", "end", "type", "query", "node", "in", "not", "and", "or", "true", "false", "tag", "field", "desc", "all", "time zone"}
var quotedIdentPieces = []string{"a", "b", "Z", "0", "9", " ", "-", ".", ",", "/", "'", "\"", "\\", "\n", "ü", "温", "%", "(", ")", "::", "=", "$", "*", "_", "\t", ";", "--", "/*"}

func (g *gen) identValue() string {
	switch g.pick("identKind", 10) {
	case 0, 1, 2, 3, 4:
		return rapid.SampledFrom(bareIdents).Draw(g.t, "ident")
	case 5:
		return rapid.SampledFrom(keywordIdents).Draw(g.t, "kwident")
	case 6:
		// dotted name (one identifier outside FROM)
		return rapid.SampledFrom(bareIdents).Draw(g.t, "ident") + "." + rapid.SampledFrom(bareIdents).Draw(g.t, "ident2")
	case 7:
		v := rapid.SampledFrom([]string{"inf", "nan", "Inf", "NaN", "INF", "NAN"}).Draw(g.t, "infnan")
		if g.allow(clsInfNanIdent) {
			return v
		}
		return "inf_" + v
	default:
		n := rapid.IntRange(1, 6).Draw(g.t, "qn")
		var sb strings.Builder
		for i := 0; i < n; i++ {
			sb.WriteString(rapid.SampledFrom(quotedIdentPieces).Draw(g.t, "qpiece"))
		}
		return sb.String()
	}
}

func quoteIdentText(v string, escapeSingle bool) string {
	var sb strings.Builder
	sb.WriteByte('"')
	for _, r := range v {
		switch r {
		case '"':
			sb.WriteString(`\"`)
		case '\\':
			sb.WriteString(`\\`)
		case '\n':
			sb.WriteString(`\n`)
		case '\'':
			if escapeSingle {
				sb.WriteString(`\'`)
			} else {
				sb.WriteByte('\'')
			}
		default:
			sb.WriteRune(r)
		}
	}
	sb.WriteByte('"')
	return sb.String()
}

func isBare(v string) bool {
	if v == "" {
		return false
	}
	for i, r := range v {
		letter := (r >= 'a' && r <= 'z') || (r >= 'A' && r <= 'Z') || r == '_'
		digit := r >= '0' && r <= '9'
		if !(letter || (i > 0 && (digit || r == '.'))) {
			return false
		}
	}
	if strings.HasSuffix(v, ".") || strings.Contains(v, "..") {
		return false
	}
	return true
}

// needsQuote: must the identifier be written in double quotes to be read back as this identifier?
// (A dotted name is one bare identifier outside FROM ... ON.)
func needsQuote(v string) bool {
	if !isBare(v) {
		return true
	}
	if influxql.Lookup(v) != influxql.IDENT {
		return true
	}
	for _, seg := range strings.Split(v, ".") {
		if seg == "" || influxql.Lookup(seg) != influxql.IDENT || !(isLetterByte(seg[0])) {
			return true
		}
	}
	return false
}

// identText renders an identifier value as source text (bare when possible, sometimes quoted anyway).
func (g *gen) identText(v string) string {
	if !needsQuote(v) && !g.chance("quoteAnyway", 15) {
		return v
	}
	return quoteIdentText(v, g.chance("escSingle", 30))
}

func (g *gen) varRef() string {
	s := g.identText(g.identValue())
	if g.chance("typed", 12) {
		types := []string{"float", "integer", "string", "boolean", "tag", "field", "unsigned", "FLOAT", "Tag"}
		if g.d.yacc {
			types = append(types, "time", "duration")
		} else {
			types = append(types, "floattuple")
		}
		ty := rapid.SampledFrom(types).Draw(g.t, "vtype")
		if (ty == "time" || ty == "duration") && !g.allow(clsYaccOnlyCast) {
			ty = "float"
		}
		s += "::" + ty
	}
	return s
}

// ---------------------------------------------------------------- literals

var stringPieces = []string{"a", "b", "xyz", " ", "0", "'", "\"", "\\", "\n", "ü", "温度", "%", "/", "--", "/*", "*/", ";", "$p", "\t", ",", "(", ")", "=", "\\n", "''", "2020-01-01T00:00:00Z", "2020-01-01", ":", "."}

func (g *gen) stringValue() string {
	n := rapid.IntRange(0, 5).Draw(g.t, "sn")
	var sb strings.Builder
	for i := 0; i < n; i++ {
		sb.WriteString(rapid.SampledFrom(stringPieces).Draw(g.t, "spiece"))
	}
	return sb.String()
}

func stringText(v string, escDouble bool) string {
	var sb strings.Builder
	sb.WriteByte('\'')
	for _, r := range v {
		switch r {
		case '\'':
			sb.WriteString(`\'`)
		case '\\':
			sb.WriteString(`\\`)
		case '\n':
			sb.WriteString(`\n`)
		case '"':
			if escDouble {
				sb.WriteString(`\"`)
			} else {
				sb.WriteByte('"')
			}
		default:
			sb.WriteRune(r)
		}
	}
	sb.WriteByte('\'')
	return sb.String()
}

func (g *gen) stringLit() string { return stringText(g.stringValue(), g.chance("escDouble", 30)) }

var hostileIntTexts = []string{"0", "1", "007", "9223372036854775807", "9223372036854775806", "9007199254740993", "4294967296", "2147483648", "1000000000000000000"}
var bigIntTexts = []string{"9223372036854775808", "18446744073709551615", "9223372036854775809"}

func (g *gen) intLit() string {
	switch g.pick("intKind", 6) {
	case 0:
		return rapid.SampledFrom(hostileIntTexts).Draw(g.t, "hint")
	case 1:
		if !g.d.yacc { // the yacc lexer clamps these at the first parse; the recursive-descent parser makes them unsigned
			return rapid.SampledFrom(bigIntTexts).Draw(g.t, "bigint")
		}
		return strconv.FormatInt(rapid.Int64Range(0, math.MaxInt64).Draw(g.t, "int63"), 10)
	default:
		return strconv.Itoa(rapid.IntRange(0, 1000).Draw(g.t, "smallint"))
	}
}

// floatLit returns the text of a float literal. Integral values are the known class.
func (g *gen) floatLit() string {
	kind := g.pick("floatKind", 8)
	switch kind {
	case 0: // integral value written with a fraction
		txt := rapid.SampledFrom([]string{"2.0", "0.0", "1.000", "100.0", "9223372036854775808.0", "3.", "4503599627370496.0", "10.00"}).Draw(g.t, "intfloat")
		if g.allow(clsIntegralFloat) {
			return txt
		}
		return "2.5"
	case 1:
		return rapid.SampledFrom([]string{"0.1", "1.5", "0.5", ".5", ".25", "123.456", "0.000001", "3.14159265358979", "0.1234567890123456789", "1.7976931348623157", "0.30000000000000004", "99999999.99999999"}).Draw(g.t, "nicefloat")
	case 2: // beyond int64: printed with one decimal by the tree
		return rapid.SampledFrom([]string{"100000000000000000000.0", "18446744073709551616.5", "9223372036854777856.0", "123456789012345678901234567890.0"}).Draw(g.t, "bigfloat")
	default:
		i := rapid.IntRange(0, 100000).Draw(g.t, "fi")
		f := rapid.IntRange(1, 9999).Draw(g.t, "ff")
		w := rapid.IntRange(1, 6).Draw(g.t, "fw")
		frac := fmt.Sprintf("%0*d", w, f)
		if strings.Trim(frac, "0") == "" {
			frac = "5"
		}
		return fmt.Sprintf("%d.%s", i, frac)
	}
}

var durUnits = []string{"u", "µ", "ms", "s", "m", "h", "d", "w"}

func (g *gen) durationLit() string {
	switch g.pick("durKind", 8) {
	case 0:
		n := rapid.IntRange(0, 5000).Draw(g.t, "ns")
		if n%1000 != 0 && !g.allow(clsSubMicroDur) {
			n = n / 1000 * 1000
		}
		return fmt.Sprintf("%dns", n)
	case 1: // compound
		return fmt.Sprintf("%dh%dm", rapid.IntRange(0, 30).Draw(g.t, "dh"), rapid.IntRange(0, 90).Draw(g.t, "dm"))
	case 2:
		return fmt.Sprintf("%dm%ds%dms", rapid.IntRange(0, 9).Draw(g.t, "d1"), rapid.IntRange(0, 99).Draw(g.t, "d2"), rapid.IntRange(0, 999).Draw(g.t, "d3"))
	default:
		return fmt.Sprintf("%d%s", rapid.IntRange(0, 1000).Draw(g.t, "dn"), rapid.SampledFrom(durUnits).Draw(g.t, "du"))
	}
}

var regexPieces = []string{"a", "b", "x1", "foo", ".", `\.`, `\d+`, `\w*`, "[a-z]", "[^0-9]", "(ab|cd)", "^", "$", `\/`, `\-`, " ", "'", `"`, "ü", ".*", "a{2,3}", "(?i)", "|", `\s`, "[/]", `\$`, "=", ",", `\\x`, `\\\/`}

func (g *gen) regexLit() string {
	if g.chance("exactRegex", 25) {
		// shapes the planner rewrites into comparisons (RewriteRegexConditions / matchExactRegex): ^lit$, ^(a|b)$, ^web(1|2)$ -
		// the rewritten chain of = / != atoms must still print and re-parse as it was planned
		return rapid.SampledFrom([]string{"/^a$/", "/^(a|b)$/", "/^(a|b|c)$/", "/^web(1|2)$/", "/^(web|db)-1$/", "/^(a|b)(x|y)$/", "/^a|b$/", "/^[ab]$/"}).Draw(g.t, "exactre")
	}
	n := rapid.IntRange(1, 5).Draw(g.t, "rn")
	var sb strings.Builder
	sb.WriteByte('/')
	for i := 0; i < n; i++ {
		p := rapid.SampledFrom(regexPieces).Draw(g.t, "rpiece")
		if p == "[/]" {
			p = `[\/]`
		}
		sb.WriteString(p)
	}
	sb.WriteByte('/')
	return sb.String()
}

// param registers a bound parameter (yacc front end only) and returns "$pN".
func (g *gen) param() string {
	name := fmt.Sprintf("p%d", g.np)
	g.np++
	var v interface{}
	switch g.pick("paramKind", 6) {
	case 0:
		v = rapid.Int64().Draw(g.t, "pint")
	case 1:
		v = rapid.Bool().Draw(g.t, "pbool")
	case 2: // JSON numbers with a '.' arrive as float64
		f := rapid.SampledFrom([]float64{0.5, -0.25, 1e-7, 1.5e300, -1.5e300, 123.456, 2, -3, 0, 1e21, -1e21, 4.9e-324, 0.1}).Draw(g.t, "pfloat")
		if f == math.Trunc(f) && !(f > math.MaxInt) && !g.allow(clsIntegralFloat) {
			f = 0.75
		}
		v = f
	case 3:
		s := rapid.String().Draw(g.t, "pstr")
		if hasCtrl(s) && !g.allow(clsCtrlCharParam) {
			s = stripCtrl(s)
		}
		v = s
	default:
		v = g.stringValue()
	}
	g.params[name] = v
	return "$" + name
}

func hasCtrl(s string) bool {
	for _, r := range s {
		if r == 0 || r == '\r' {
			return true
		}
	}
	return false
}

func stripCtrl(s string) string {
	return strings.Map(func(r rune) rune {
		if r == 0 || r == '\r' {
			return '_'
		}
		return r
	}, s)
}

// ---------------------------------------------------------------- value expressions (COLUMN)

var callNames = []string{"count", "mean", "sum", "max", "min", "first", "last", "percentile", "top", "now", "abs", "floor", "str", "my_fn", "F", "Derivative", "distinct", "f2"}

type fkind int

const (
	kIdent fkind = iota // identifier, possibly typed
	kNum                // integer / float literal
	kDur
	kStr
	kBool
	kParam
	kCall
	kParen
	kNeg  // unary sign applied
	kExpr // binary chain
	kCase
)

// frag is a piece of generated text. divSafe: the scanner reads a following '/' as a division only
// after an identifier, a number, an integer or ')'.
type frag struct {
	s       string
	kind    fkind
	divSafe bool
}

func paren(f frag) frag { return frag{s: "(" + f.s + ")", kind: kParen, divSafe: true} }

func (g *gen) value(depth int) frag {
	if depth <= 0 {
		return g.atom()
	}
	switch g.pick("valueKind", 12) {
	case 0, 1, 2:
		return g.atom()
	case 3, 4, 5, 6: // binary arithmetic
		ops := []string{"+", "-", "*", "/", "%", "&", "|", "^"}
		op := rapid.SampledFrom(ops).Draw(g.t, "arith")
		if (op == "&" || op == "|" || op == "^") && !g.allow(clsBitwise) {
			op = "+"
		}
		l := g.value(depth - 1)
		r := g.value(depth - 1)
		if op == "/" && !l.divSafe {
			l = paren(l)
		}
		return frag{s: l.s + g.sp() + op + g.sp() + r.s, kind: kExpr, divSafe: r.divSafe}
	case 7: // parentheses, possibly redundant
		in := g.value(depth - 1)
		if g.chance("dblparen", 20) {
			in = paren(in)
		}
		return paren(in)
	case 8: // unary minus / plus
		in := g.value(depth - 1)
		sign := "-"
		if !g.d.yacc && g.chance("plus", 20) {
			sign = "+"
		}
		switch in.kind {
		case kIdent, kNum, kDur, kCall, kParen:
		default:
			in = paren(in)
		}
		// always a space: "- -" must not become a "--" comment
		return frag{s: sign + " " + in.s, kind: kNeg, divSafe: in.divSafe}
	case 9, 10:
		return g.call(depth - 1)
	default:
		if g.d.yacc && g.chance("case", 25) {
			if g.allow(clsCaseWhen) {
				return g.caseWhen(depth - 1)
			}
		}
		return g.call(depth - 1)
	}
}

func isLetterByte(b byte) bool { return (b >= 'a' && b <= 'z') || (b >= 'A' && b <= 'Z') || b == '_' }

func (g *gen) atom() frag {
	switch g.pick("atomKind", 16) {
	case 5, 6:
		return frag{s: g.intLit(), kind: kNum, divSafe: true}
	case 7, 8:
		return frag{s: g.floatLit(), kind: kNum, divSafe: true}
	case 9, 10:
		return frag{s: g.stringLit(), kind: kStr}
	case 11:
		return frag{s: rapid.SampledFrom([]string{"true", "false", "TRUE", "False"}).Draw(g.t, "bool"), kind: kBool}
	case 12:
		return frag{s: g.durationLit(), kind: kDur}
	case 13:
		if g.d.params {
			return frag{s: g.param(), kind: kParam}
		}
		return frag{s: g.stringLit(), kind: kStr}
	default:
		s := g.varRef()
		return frag{s: s, kind: kIdent, divSafe: !strings.Contains(s, "::")}
	}
}

func (g *gen) call(depth int) frag {
	if g.d.planned {
		return g.atom()
	}
	name := rapid.SampledFrom(callNames).Draw(g.t, "fn")
	n := rapid.IntRange(0, 4).Draw(g.t, "arity")
	args := make([]string, 0, n)
	for i := 0; i < n; i++ {
		switch g.pick("argKind", 10) {
		case 0:
			args = append(args, "*")
		case 1:
			args = append(args, g.regexLit())
		default:
			args = append(args, g.value(depth).s)
		}
	}
	open := "("
	if g.chance("callsp", 10) && len(args) > 0 {
		open = "( "
	}
	return frag{s: name + open + strings.Join(args, ","+g.sp()) + ")", kind: kCall, divSafe: true}
}

func (g *gen) caseWhen(depth int) frag {
	n := rapid.IntRange(1, 2).Draw(g.t, "whens")
	var sb strings.Builder
	sb.WriteString("CASE")
	for i := 0; i < n; i++ {
		sb.WriteString(" WHEN " + g.cond(depth) + " THEN " + g.value(depth).s)
	}
	sb.WriteString(" ELSE " + g.value(depth).s + " END")
	return frag{s: sb.String(), kind: kCase}
}

// ---------------------------------------------------------------- conditions (CONDITION)

var cmpOps = []string{"=", "!=", "<>", "<", "<=", ">", ">="}

var timePreds = []string{"time > now() - 5m", "time >= '2020-01-01T00:00:00Z'", "time < 1600000000000000000", "time <= '2021-06-01 12:30:00.5'", "time > now() - 1h30m", "time >= 10s", "time < now() + 10m", "time = '2020-02-02'"}

func (g *gen) comparison(depth int) string {
	if g.d.planned && !g.noTime && g.chance("timePred", 25) {
		return rapid.SampledFrom(timePreds).Draw(g.t, "timePredText")
	}
	switch g.pick("cmpKind", 14) {
	case 0, 1: // regex match
		op := rapid.SampledFrom([]string{"=~", "!~"}).Draw(g.t, "reop")
		return g.value(0).s + g.sp() + op + g.sp() + g.regexLit()
	case 2: // IN / NOT IN with a literal set
		id := g.identText(g.identValue())
		n := rapid.IntRange(1, 4).Draw(g.t, "setn")
		items := make([]string, n)
		for i := range items {
			switch g.pick("setKind", 3) {
			case 0:
				items[i] = g.intLit()
			case 1:
				items[i] = g.stringLit()
			default:
				items[i] = rapid.SampledFrom([]string{"0.5", "1.25", "3.0", "100.125"}).Draw(g.t, "setfloat")
			}
		}
		kw := "IN"
		if g.chance("notin", 40) {
			kw = "NOT IN"
			if !g.d.yacc {
				kw = "NOTIN"
			}
		}
		return id + " " + kw + " (" + strings.Join(items, ","+g.sp()) + ")"
	case 3: // full-text operators
		fn := rapid.SampledFrom([]string{"MATCH", "MATCHPHRASE", "IPINRANGE", "match"}).Draw(g.t, "ftop")
		id := g.identText(g.identValue())
		if g.d.yacc {
			return fn + "(" + id + "," + g.sp() + g.stringLit() + ")"
		}
		return id + " " + fn + " " + g.stringLit()
	case 4:
		l := g.value(depth)
		if (l.kind == kExpr || l.kind == kNeg) && g.d.yacc && !g.allow(clsLikeArith) {
			l = paren(l)
		}
		return l.s + " LIKE " + g.stringLit()
	default:
		op := rapid.SampledFrom(cmpOps).Draw(g.t, "cmp")
		l := g.value(depth)
		r := g.value(depth)
		ls, rs := l.s, r.s
		if g.d.yacc && !g.d.planned && depth > 0 && g.chance("condOperand", 6) {
			// yacc lets a parenthesised condition be a comparison operand
			ls = "(" + g.cond(depth-1) + ")"
		}
		sep1, sep2 := g.sp(), g.sp()
		if g.chance("tight", 15) && r.kind != kNeg && !strings.HasPrefix(rs, "-") && !strings.HasPrefix(rs, "+") {
			sep1, sep2 = "", ""
		}
		return ls + sep1 + op + sep2 + rs
	}
}

// cond generates a boolean expression. AND/OR chains are built flat; a flat chain in which an OR is
// followed (at the same level) by an AND is the known class clsAndOverOr for the yacc front end.
func (g *gen) cond(depth int) string {
	if depth <= 0 {
		g.noTime = true // a condition made of time predicates only vanishes in planning
		s := g.comparison(0)
		g.noTime = false
		return s
	}
	n := rapid.IntRange(1, 4).Draw(g.t, "chain")
	parts := make([]string, n)
	for i := range parts {
		g.noTime = i == 0
		if g.chance("subcond", 30) {
			parts[i] = "(" + g.cond(depth-1) + ")"
			if g.chance("dblcondparen", 10) {
				parts[i] = "(" + parts[i] + ")"
			}
		} else {
			parts[i] = g.comparison(depth - 1)
		}
	}
	ops := make([]string, n-1)
	seenOr := false
	for i := range ops {
		op := rapid.SampledFrom([]string{"AND", "OR", "and", "Or"}).Draw(g.t, "boolop")
		isOr := strings.EqualFold(op, "or")
		if seenOr && !isOr && g.d.yacc && !g.allow(clsAndOverOr) {
			op, isOr = "OR", true
		}
		seenOr = seenOr || isOr
		ops[i] = op
	}
	var sb strings.Builder
	for i, p := range parts {
		if i > 0 {
			sb.WriteString(g.sp() + ops[i-1] + g.sp())
		}
		sb.WriteString(p)
	}
	return sb.String()
}

// exprRD generates text for the recursive-descent ParseExpr, which also accepts bare values.
func (g *gen) exprRD(depth int) string {
	if g.chance("bareValue", 15) {
		return g.value(depth).s
	}
	return g.cond(depth)
}

// fieldList generates the field list of a SELECT.
func (g *gen) fieldList(depth int) string {
	n := rapid.IntRange(1, 4).Draw(g.t, "nfields")
	fs := make([]string, n)
	for i := range fs {
		switch g.pick("fieldKind", 12) {
		case 0:
			fs[i] = rapid.SampledFrom([]string{"*", "*::tag", "*::field"}).Draw(g.t, "wild")
		case 1:
			fs[i] = g.regexLit()
		default:
			fs[i] = g.value(depth).s
			if g.chance("alias", 30) {
				fs[i] += " AS " + g.identText(g.identValue())
			}
		}
	}
	return strings.Join(fs, ","+g.sp())
}
