package c11

// In-process "cluster" for C11: one meta.Data that is mutated only through the protobuf commands the meta service
// applies (lib/util/lifted/influx/meta Apply* functions / Data methods the ts-meta FSM calls), the REAL
// coordinator.PointsWriter for routing rows to shards (its meta client is the real metaclient.Client reading that Data;
// only the four RPC-sending methods are replaced by "apply the same command locally"), a recording TSDBStore, and the
// REAL coordinator.ClusterShardMapper reached through query.Prepare for pruning.

import (
	"errors"
	"fmt"
	"sort"
	"strings"
	"sync"
	"time"

	"github.com/openGemini/openGemini/coordinator"
	"github.com/openGemini/openGemini/lib/config"
	"github.com/openGemini/openGemini/lib/logger"
	"github.com/openGemini/openGemini/lib/metaclient"
	"github.com/openGemini/openGemini/lib/netstorage"
	"github.com/openGemini/openGemini/lib/util/lifted/influx/influxql"
	meta2 "github.com/openGemini/openGemini/lib/util/lifted/influx/meta"
	proto2 "github.com/openGemini/openGemini/lib/util/lifted/influx/meta/proto"
	"github.com/openGemini/openGemini/lib/util/lifted/influx/query"
	"github.com/openGemini/openGemini/lib/util/lifted/protobuf/proto"
	"github.com/openGemini/openGemini/lib/util/lifted/vm/protoparser/influx"
)

const (
	dbName = "db0"
	rpName = "rp0"
)

// ---------------------------------------------------------------- meta commands

func mkCmd(t proto2.Command_Type, desc *proto.ExtensionDesc, val interface{}) *proto2.Command {
	cmd := &proto2.Command{Type: &t}
	if err := proto.SetExtension(cmd, desc, val); err != nil {
		panic(err)
	}
	// round trip through the wire format as the raft log does
	b, err := proto.Marshal(cmd)
	if err != nil {
		panic(err)
	}
	out := &proto2.Command{}
	if err := proto.Unmarshal(b, out); err != nil {
		panic(err)
	}
	return out
}

type cluster struct {
	data *meta2.Data
	mc   *simMeta
	pw   *coordinator.PointsWriter
	rec  *recorder
	csm  *coordinator.ClusterShardMapper
}

// simMeta is the points writer's meta client: the real client over the shared Data; methods that would send a command
// to ts-meta apply the identical command to the Data instead.
type simMeta struct {
	*metaclient.Client
	data *meta2.Data
}

func (m *simMeta) CreateShardGroup(database, policy string, timestamp time.Time, version uint32, engineType config.EngineType) (*meta2.ShardGroupInfo, error) {
	sg, tier, err := m.data.GetTierOfShardGroup(database, policy, timestamp, m.Client.ShardTier, engineType)
	if err != nil {
		return nil, err
	}
	if sg == nil {
		cmd := mkCmd(proto2.Command_CreateShardGroupCommand, proto2.E_CreateShardGroupCommand_Command, &proto2.CreateShardGroupCommand{
			Database:   proto.String(database),
			Policy:     proto.String(policy),
			Timestamp:  proto.Int64(timestamp.UnixNano()),
			ShardTier:  proto.Uint64(tier),
			EngineType: proto.Uint32(uint32(engineType)),
			Version:    proto.Uint32(version),
		})
		if err := meta2.ApplyCreateShardGroup(m.data, cmd); err != nil {
			return nil, err
		}
	}
	// the real client (now on its fast path: the group exists in its cache)
	return m.Client.CreateShardGroup(database, policy, timestamp, version, engineType)
}

func (m *simMeta) UpdateSchema(database string, retentionPolicy string, mst string, fieldToCreate []*proto2.FieldSchema) error {
	return m.UpdateSchemaByCmd(&proto2.UpdateSchemaCommand{
		Database:      proto.String(database),
		RpName:        proto.String(retentionPolicy),
		Measurement:   proto.String(mst),
		FieldToCreate: fieldToCreate,
	})
}

func (m *simMeta) UpdateSchemaByCmd(c *proto2.UpdateSchemaCommand) error {
	cmd := mkCmd(proto2.Command_UpdateSchemaCommand, proto2.E_UpdateSchemaCommand_Command, c)
	return meta2.ApplyUpdateSchema(m.data, cmd)
}

func (m *simMeta) CreateMeasurement(database, retentionPolicy, mst string, shardKey *meta2.ShardKeyInfo, numOfShards int32, indexR *influxql.IndexRelation,
	engineType config.EngineType, colStoreInfo *meta2.ColStoreInfo, schemaInfo []*proto2.FieldSchema, options *meta2.Options) (*meta2.MeasurementInfo, error) {
	// mirrors metaclient.Client.CreateMeasurement
	msti, err := m.Client.Measurement(database, retentionPolicy, mst)
	if msti != nil {
		n := len(msti.ShardKeys)
		if n == 0 || !shardKey.EqualsToAnother(&msti.ShardKeys[n-1]) {
			return nil, meta2.ErrMeasurementExists
		}
		return msti, nil
	}
	if err != meta2.ErrMeasurementNotFound {
		return nil, err
	}
	if !meta2.ValidMeasurementName(mst) {
		return nil, fmt.Errorf("invalid measurement %q", mst)
	}
	c := &proto2.CreateMeasurementCommand{
		DBName:          proto.String(database),
		RpName:          proto.String(retentionPolicy),
		Name:            proto.String(mst),
		EngineType:      proto.Uint32(uint32(engineType)),
		InitNumOfShards: proto.Int32(numOfShards),
	}
	if shardKey != nil {
		c.Ski = shardKey.Marshal()
	}
	if indexR != nil {
		indexR.Rid = 0
		c.IR = meta2.EncodeIndexRelation(indexR)
	}
	if len(schemaInfo) > 0 {
		c.SchemaInfo = schemaInfo
	}
	if options != nil {
		c.Options = options.Marshal()
	}
	cmd := mkCmd(proto2.Command_CreateMeasurementCommand, proto2.E_CreateMeasurementCommand_Command, c)
	if err := meta2.ApplyCreateMeasurement(m.data, cmd); err != nil {
		return nil, err
	}
	return m.Client.Measurement(database, retentionPolicy, mst)
}

// recorder is the storage layer: remembers which shard every row was delivered to.
type delivery struct {
	shard uint64
	pt    uint32
	node  uint64
	row   influx.Row
}

type recorder struct {
	mu  sync.Mutex
	got []delivery
}

func (r *recorder) WriteRows(ctx *netstorage.WriteContext, nodeID uint64, pt uint32, database, rp string, timeout time.Duration) error {
	r.mu.Lock()
	defer r.mu.Unlock()
	for i := range ctx.Rows {
		src := &ctx.Rows[i]
		c := influx.Row{Name: strings.Clone(src.Name), Timestamp: src.Timestamp}
		for _, tg := range src.Tags {
			c.Tags = append(c.Tags, influx.Tag{Key: strings.Clone(tg.Key), Value: strings.Clone(tg.Value)})
		}
		for _, f := range src.Fields {
			c.Fields = append(c.Fields, influx.Field{Key: strings.Clone(f.Key), NumValue: f.NumValue, StrValue: strings.Clone(f.StrValue), Type: f.Type})
		}
		r.got = append(r.got, delivery{shard: ctx.Shard.ID, pt: pt, node: nodeID, row: c})
	}
	return nil
}

func (r *recorder) take() []delivery {
	r.mu.Lock()
	defer r.mu.Unlock()
	g := r.got
	r.got = nil
	return g
}

type clusterCfg struct {
	Nodes       int    `json:"nodes"`
	PtPerNode   int    `json:"pt_per_node"`
	NumOfShards int    `json:"num_of_shards,omitempty"` // ts-meta config num-of-shards (used by SHARDS AUTO)
	CreateDB    string `json:"create_db"`               // CREATE DATABASE statement text
}

func newCluster(cfg clusterCfg) (*cluster, error) {
	data := &meta2.Data{Index: 1, PtNumPerNode: uint32(cfg.PtPerNode), TakeOverEnabled: true, BalancerEnabled: true,
		NumOfShards: int32(cfg.NumOfShards), UpdateNodeTmpIndexCommandStart: 1}
	for n := 1; n <= cfg.Nodes; n++ {
		cmd := mkCmd(proto2.Command_CreateDataNodeCommand, proto2.E_CreateDataNodeCommand_Command, &proto2.CreateDataNodeCommand{
			HTTPAddr: proto.String(fmt.Sprintf("127.0.0.%d:8400", n)), TCPAddr: proto.String(fmt.Sprintf("127.0.0.%d:8401", n)), Role: proto.String("")})
		if err := meta2.ApplyCreateDataNode(data, cmd); err != nil {
			return nil, err
		}
	}
	for i := range data.DataNodes {
		cmd := mkCmd(proto2.Command_UpdateNodeStatusCommand, proto2.E_UpdateNodeStatusCommand_Command, &proto2.UpdateNodeStatusCommand{
			ID: proto.Uint64(data.DataNodes[i].ID), Status: proto.Int32(1 /* serf.StatusAlive */), Ltime: proto.Uint64(1), GossipAddr: proto.String("8011")})
		if err := meta2.ApplyUpdateNodeStatus(data, cmd); err != nil {
			return nil, err
		}
	}
	cl := &cluster{data: data, rec: &recorder{}}
	real := metaclient.NewClient("", false, 8)
	real.SetCacheData(data)
	cl.mc = &simMeta{Client: real, data: data}
	cl.pw = coordinator.NewPointsWriter(10 * time.Second)
	cl.pw.MetaClient = cl.mc
	cl.pw.TSDBStore = cl.rec
	cl.csm = &coordinator.ClusterShardMapper{Logger: logger.NewLogger(0), MetaClient: real}
	if err := cl.ddl(cfg.CreateDB); err != nil {
		return nil, err
	}
	return cl, nil
}

func parseStatement(text string) (influxql.Statement, error) {
	p := influxql.NewParser(strings.NewReader(text))
	defer p.Release()
	yy := influxql.NewYyParser(p.GetScanner(), p.GetPara())
	yy.ParseTokens()
	q, err := yy.GetQuery()
	if err != nil {
		return nil, err
	}
	if len(q.Statements) != 1 {
		return nil, fmt.Errorf("expected one statement, got %d", len(q.Statements))
	}
	return q.Statements[0], nil
}

// ddl executes a DDL statement the way the sql node's statement executor + ts-meta do.
func (cl *cluster) ddl(text string) error {
	st, err := parseStatement(text)
	if err != nil {
		return fmt.Errorf("parse %q: %w", text, err)
	}
	switch stmt := st.(type) {
	case *influxql.CreateDatabaseStatement:
		return cl.createDatabase(stmt)
	case *influxql.CreateMeasurementStatement:
		if err := meta2.ValidShardKey(stmt.ShardKey); err != nil {
			return err
		}
		ski := &meta2.ShardKeyInfo{ShardKey: stmt.ShardKey, Type: stmt.Type}
		engineType := config.String2EngineType[stmt.EngineType]
		_, err := cl.mc.CreateMeasurement(stmt.Database, stmt.RetentionPolicy, stmt.Name, ski, int32(stmt.NumOfShards), nil, engineType, nil,
			meta2.NewSchemaInfo(stmt.Tags, stmt.Fields), &meta2.Options{Ttl: int64(stmt.TTL)})
		return err
	case *influxql.AlterShardKeyStatement:
		if err := meta2.ValidShardKey(stmt.ShardKey); err != nil {
			return err
		}
		ski := &meta2.ShardKeyInfo{ShardKey: stmt.ShardKey, Type: stmt.Type}
		if _, err := cl.mc.Measurement(stmt.Database, stmt.RetentionPolicy, stmt.Name); err != nil {
			return err
		}
		cmd := mkCmd(proto2.Command_AlterShardKeyCmd, proto2.E_AlterShardKeyCmd_Command, &proto2.AlterShardKeyCmd{
			DBName: proto.String(stmt.Database), RpName: proto.String(stmt.RetentionPolicy), Name: proto.String(stmt.Name), Ski: ski.Marshal()})
		return meta2.ApplyAlterShardKey(cl.data, cmd)
	case *influxql.AlterRetentionPolicyStatement:
		// sql node: StatementExecutor.executeAlterRetentionPolicyStatement -> metaclient.Client.UpdateRetentionPolicy
		// (builds the UpdateRetentionPolicyCommand); ts-meta: storeFSM.applyUpdateRetentionPolicyCommand -> meta.ApplyUpdateRetentionPolicy
		rpi, err := cl.mc.RetentionPolicy(stmt.Database, stmt.Name)
		if err != nil {
			return err
		}
		if rpi == nil {
			return fmt.Errorf("retention policy %s.%s not found", stmt.Database, stmt.Name)
		}
		if (rpi.HasDownSamplePolicy() || rpi.ShardMergeDuration != 0) && stmt.Duration != nil && rpi.Duration != *stmt.Duration {
			return errors.New("down sample policy exists")
		}
		oneReplication := 1
		rpu := &meta2.RetentionPolicyUpdate{
			Duration:           stmt.Duration,
			ReplicaN:           &oneReplication,
			ShardGroupDuration: stmt.ShardGroupDuration,
			HotDuration:        stmt.HotDuration,
			WarmDuration:       stmt.WarmDuration,
			IndexGroupDuration: stmt.IndexGroupDuration,
			IndexColdDuration:  stmt.IndexColdDuration,
		}
		replicaN := uint32(*rpu.ReplicaN)
		cmd := mkCmd(proto2.Command_UpdateRetentionPolicyCommand, proto2.E_UpdateRetentionPolicyCommand_Command, &proto2.UpdateRetentionPolicyCommand{
			Database:           proto.String(stmt.Database),
			Name:               proto.String(stmt.Name),
			NewName:            rpu.Name,
			Duration:           meta2.GetInt64Duration(rpu.Duration),
			ReplicaN:           &replicaN,
			ShardGroupDuration: meta2.GetInt64Duration(rpu.ShardGroupDuration),
			MakeDefault:        proto.Bool(stmt.Default),
			HotDuration:        meta2.GetInt64Duration(rpu.HotDuration),
			WarmDuration:       meta2.GetInt64Duration(rpu.WarmDuration),
			IndexGroupDuration: meta2.GetInt64Duration(rpu.IndexGroupDuration),
			IndexColdDuration:  meta2.GetInt64Duration(rpu.IndexColdDuration),
		})
		return meta2.ApplyUpdateRetentionPolicy(cl.data, cmd)
	default:
		return fmt.Errorf("unsupported ddl %T", st)
	}
}

func (cl *cluster) createDatabase(stmt *influxql.CreateDatabaseStatement) error {
	if !stmt.RetentionPolicyCreate {
		return errors.New("harness creates databases with an explicit retention policy only")
	}
	if err := meta2.ValidShardKey(stmt.ShardKey); err != nil {
		return err
	}
	// sql node: executeCreateDatabaseStatement -> metaclient.CreateDatabaseWithRetentionPolicy
	spec := meta2.RetentionPolicySpec{
		Name:               stmt.RetentionPolicyName,
		Duration:           stmt.RetentionPolicyDuration,
		ReplicaN:           stmt.RetentionPolicyReplication,
		ShardGroupDuration: stmt.RetentionPolicyShardGroupDuration,
		ShardMergeDuration: stmt.RetentionPolicyShardMergeDuration,
		HotDuration:        &stmt.RetentionPolicyHotDuration,
		WarmDuration:       &stmt.RetentionPolicyWarmDuration,
		IndexColdDuration:  &stmt.RetentionPolicyIndexColdDuration,
		IndexGroupDuration: stmt.RetentionPolicyIndexGroupDuration,
	}
	one := 1
	if spec.ReplicaN == nil {
		spec.ReplicaN = &one
	}
	ski := &meta2.ShardKeyInfo{ShardKey: stmt.ShardKey}
	rpi := spec.NewRetentionPolicyInfo()
	if err := rpi.CheckSpecValid(); err != nil {
		return err
	}
	c := &proto2.CreateDatabaseCommand{
		Name:            proto.String(stmt.Name),
		RetentionPolicy: rpi.Marshal(),
		EnableTagArray:  proto.Bool(false),
		ReplicaNum:      proto.Uint32(1),
	}
	if len(ski.ShardKey) > 0 {
		c.Ski = ski.Marshal()
	}
	// ts-meta: handlers_process.createDatabase: pt view first, then the command, then the pts are assigned (-> Online)
	pv := mkCmd(proto2.Command_CreateDbPtViewCommand, proto2.E_CreateDbPtViewCommand_Command, &proto2.CreateDbPtViewCommand{DbName: c.Name, ReplicaNum: c.ReplicaNum})
	if err := meta2.ApplyCreateDbPtViewCommand(cl.data, pv); err != nil {
		return err
	}
	cmd := mkCmd(proto2.Command_CreateDatabaseCommand, proto2.E_CreateDatabaseCommand_Command, c)
	ext, _ := proto.GetExtension(cmd, proto2.E_CreateDatabaseCommand_Command)
	v := ext.(*proto2.CreateDatabaseCommand)
	pb := v.GetRetentionPolicy()
	rp := &meta2.RetentionPolicyInfo{ // store_fsm.applyCreateDatabaseCommand
		Name:               pb.GetName(),
		ReplicaN:           int(pb.GetReplicaN()),
		Duration:           time.Duration(pb.GetDuration()),
		ShardGroupDuration: time.Duration(pb.GetShardGroupDuration()),
		HotDuration:        time.Duration(pb.GetHotDuration()),
		WarmDuration:       time.Duration(pb.GetWarmDuration()),
		IndexColdDuration:  time.Duration(pb.GetIndexColdDuration()),
		IndexGroupDuration: time.Duration(pb.GetIndexGroupDuration()),
		ShardMergeDuration: time.Duration(pb.GetShardMergeDuration())}
	if err := cl.data.CreateDatabase(v.GetName(), rp, v.GetSki(), v.GetEnableTagArray(), 1, v.GetOptions()); err != nil {
		return err
	}
	for _, pt := range cl.data.DBPtView(stmt.Name) {
		pi := &proto2.PtInfo{Owner: &proto2.PtOwner{NodeID: proto.Uint64(pt.Owner.NodeID)}, Status: proto.Uint32(uint32(pt.Status)), PtId: proto.Uint32(pt.PtId)}
		up := mkCmd(proto2.Command_UpdatePtInfoCommand, proto2.E_UpdatePtInfoCommand_Command, &proto2.UpdatePtInfoCommand{
			Db: proto.String(stmt.Name), Pt: pi, OwnerNode: proto.Uint64(pt.Owner.NodeID), Status: proto.Uint32(uint32(meta2.Online))})
		if err := meta2.ApplyUpdatePtInfo(cl.data, up); err != nil {
			return err
		}
	}
	return nil
}

// ---------------------------------------------------------------- writes

type writeResult struct {
	deliveries []delivery
	err        error
}

// write parses a line-protocol batch with the real parser (as the /write handler does) and routes it.
func (cl *cluster) write(lines []string) writeResult {
	var prs influx.PointRows
	if err := prs.Unmarshal(strings.Join(lines, "\n"), false); err != nil {
		return writeResult{err: fmt.Errorf("parse: %w", err)}
	}
	rows := prs.Rows
	for i := range rows {
		if err := rows[i].CheckValid(); err != nil {
			return writeResult{err: fmt.Errorf("invalid row: %w", err)}
		}
	}
	cl.rec.take()
	err := cl.pw.RetryWritePointRows(dbName, rpName, rows)
	got := cl.rec.take()
	// shards are written concurrently: order the deliveries so that the check is deterministic
	sort.SliceStable(got, func(i, j int) bool {
		a, _ := rowID(&got[i].row)
		b, _ := rowID(&got[j].row)
		if a != b {
			return a < b
		}
		return got[i].shard < got[j].shard
	})
	return writeResult{deliveries: got, err: err}
}

// ---------------------------------------------------------------- queries

var errStopAfterMap = errors.New("c11: stop after MapShards")

type captureMapper struct {
	csm    *coordinator.ClusterShardMapper
	called bool
	cond   string
	expr   influxql.Expr
	tmin   int64
	tmax   int64
	shards map[string]map[uint64]bool // measurement -> shard ids
	err    error
}

func (m *captureMapper) MapShards(stmt *influxql.SelectStatement, t influxql.TimeRange, opt query.SelectOptions, condition influxql.Expr) (query.ShardGroup, error) {
	m.called = true
	if condition != nil {
		m.cond = condition.String()
		m.expr = influxql.CloneExpr(condition)
	}
	m.tmin, m.tmax = t.MinTimeNano(), t.MaxTimeNano()
	sg, err := m.csm.MapShards(stmt, t, opt, condition)
	if err != nil {
		m.err = err
		return nil, err
	}
	csming := sg.(*coordinator.ClusterShardMapping)
	m.shards = map[string]map[uint64]bool{}
	for src, byPt := range csming.ShardMap {
		set := m.shards[src.Measurement]
		if set == nil {
			set = map[uint64]bool{}
			m.shards[src.Measurement] = set
		}
		for _, shs := range byPt {
			for _, s := range shs {
				set[s.ID] = true
			}
		}
	}
	return nil, errStopAfterMap
}

func (m *captureMapper) Close() error { return nil }

type mapResult struct {
	cond       string // condition handed to the shard mapper
	condExpr   influxql.Expr
	tmin, tmax int64
	shards     map[string]map[uint64]bool
}

// mapQuery runs the real compile + prepare pipeline of a SELECT up to and including shard mapping.
func (cl *cluster) mapQuery(text string) (*mapResult, error) {
	st, err := parseStatement(text)
	if err != nil {
		return nil, fmt.Errorf("parse %q: %w", text, err)
	}
	sel, ok := st.(*influxql.SelectStatement)
	if !ok {
		return nil, fmt.Errorf("not a select: %T", st)
	}
	cm := &captureMapper{csm: cl.csm}
	_, err = query.Prepare(sel, cm, query.SelectOptions{})
	if !cm.called {
		return nil, fmt.Errorf("prepare failed before shard mapping: %v", err)
	}
	if cm.err != nil {
		return nil, fmt.Errorf("MapShards: %w", cm.err)
	}
	return &mapResult{cond: cm.cond, condExpr: cm.expr, tmin: cm.tmin, tmax: cm.tmax, shards: cm.shards}, nil
}

// ---------------------------------------------------------------- catalogue helpers

type shardLoc struct {
	group      uint64
	start, end time.Time
	deleted    bool
	owners     []uint32
}

func (cl *cluster) shardIndex() map[uint64]shardLoc {
	out := map[uint64]shardLoc{}
	rpi, err := cl.data.RetentionPolicy(dbName, rpName)
	if err != nil {
		return out
	}
	for i := range rpi.ShardGroups {
		g := &rpi.ShardGroups[i]
		for j := range g.Shards {
			out[g.Shards[j].ID] = shardLoc{group: g.ID, start: g.StartTime, end: g.EndTime, deleted: g.Deleted(), owners: append([]uint32(nil), g.Shards[j].Owners...)}
		}
	}
	return out
}

func sortedIDs(m map[uint64]bool) []uint64 {
	out := make([]uint64, 0, len(m))
	for k := range m {
		out = append(out, k)
	}
	sort.Slice(out, func(i, j int) bool { return out[i] < out[j] })
	return out
}

func (cl *cluster) applyReSharding(groupID uint64, splitTime int64, bounds []string) error {
	cmd := mkCmd(proto2.Command_ReShardingCommand, proto2.E_ReShardingCommand_Command, &proto2.ReShardingCommand{
		Database: proto.String(dbName), RpName: proto.String(rpName), ShardGroupID: proto.Uint64(groupID), SplitTime: proto.Int64(splitTime), ShardBounds: bounds})
	return meta2.ApplyReSharding(cl.data, cmd)
}

// field keys of the generated points and their line-protocol types
var fieldTypes = map[string]int32{
	"id": influx.Field_Type_Int, "fi": influx.Field_Type_Int, "ff": influx.Field_Type_Float, "fs": influx.Field_Type_String, "fb": influx.Field_Type_Boolean,
}

func rowID(r *influx.Row) (int64, bool) {
	for i := range r.Fields {
		if r.Fields[i].Key == "id" {
			return int64(r.Fields[i].NumValue), true
		}
	}
	return 0, false
}
