package c11

import (
	"fmt"
	"testing"

	"pgregory.net/rapid"
	"verif/internal/ev"
)

// runGenerated executes one generated case inside a rapid property and records statistics.
func runGenerated(t *rapid.T, c *ev.Case, md mode, o runOpts) {
	cd, gi := genCase(t, md)
	c.Sample(cd)
	c.Class(fmt.Sprintf("pt=%d", gi.ptNum))
	if cd.Cfg.Nodes > 1 {
		c.Class("nodes=2")
	}
	c.Class("sg=" + gi.sgDur.String())
	if len(gi.dbKey) > 0 {
		c.Class("key:db-level")
	}
	for _, m := range gi.msts {
		switch {
		case m.ddl == "":
			c.Class("mst:auto-created")
		case len(m.keys[0]) == 0:
			c.Class("key:none")
		case len(m.keys[0]) == 1:
			c.Class("key:one-tag")
		default:
			c.Class("key:several-tags")
		}
		if m.ddl != "" && containsWord(m.ddl, "SHARDS") {
			c.Class("init-num-of-shards")
		}
	}
	if len(gi.msts) > 1 {
		c.Class("mst=2")
	}
	if gi.extreme {
		c.Class("ts:extreme")
	}
	if gi.negative {
		c.Class("ts:negative")
	}
	st, err := runCase(cd, o)
	if st != nil {
		if st.rewrites > 0 {
			c.Class("rewrites")
		}
		if st.groups >= 2 {
			c.Class("groups>=2")
		}
		if st.groups >= 4 {
			c.Class("groups>=4")
		}
		if st.reshards > 0 {
			c.Class("resharded")
		}
		for i := 0; i < st.reordered; i++ {
			c.Excluded("R:post-reshard-batch-not-in-descending-time-order")
		}
		if st.alters > 0 {
			c.Class("altered")
		}
		nt := md.cond == "" && st.rowsDelivered >= 2 && st.groups >= 2
		for _, q := range st.queries {
			if q.skipped != "" {
				switch {
				case q.classA && o.skipA:
					c.Excluded("A:or-with-unconstrained-side")
				case q.classB && o.skipB:
					c.Excluded("B:two-or-more-tag-groups")
				case q.classC && o.skipC:
					c.Excluded("C:groups-under-different-shard-keys")
				case q.classH && o.skipH:
					c.Excluded("H:full_series-hint-with-tags-beyond-the-shard-key")
				default:
					c.Excluded("D:regex-source-over-differently-sharded-measurements")
				}
				continue
			}
			if q.hint {
				c.Class("q:full_series-hint")
			}
			if q.hasOr {
				c.Class("q:or")
			}
			if q.hasField {
				c.Class("q:field")
			}
			if q.hasTime {
				c.Class("q:time")
			}
			if q.hasOtherTag {
				c.Class("q:other-tag-op")
			}
			if q.hasParen {
				c.Class("q:paren")
			}
			pruned := q.mappedShards < q.shardsInRng
			if pruned {
				c.Class("q:pruned")
			}
			if q.groupsInRng >= 2 {
				c.Class("q:groups>=2")
			}
			switch {
			case q.matches == 0:
				c.Class("q:match=0")
			default:
				c.Class("q:match>=1")
			}
			if q.matchShards >= 2 {
				c.Class("q:match-shards>=2")
			}
			if q.classA {
				c.Class("q:classA-checked")
			}
			if q.classB {
				c.Class("q:classB-checked")
			}
			if q.matches >= 1 && (pruned || ((q.hasOr || q.hasField || q.hasOtherTag) && q.matchShards >= 2)) {
				nt = true
			}
		}
		if nt {
			c.Nontrivial(cd)
		}
	}
	if err != nil {
		if v, ok := err.(*violation); ok {
			c.Failf(t, prop, cd, "%s", v.msg)
		}
		// the generated case could not be executed: a defect of this check, never a finding
		fmt.Printf("VERIF-INCONCLUSIVE harness error: %.600v\ncase: %.3000s\n", err, cd.String())
		c.Class("harness-error")
		t.Skip("harness error")
	}
}

func containsWord(s, w string) bool {
	for i := 0; i+len(w) <= len(s); i++ {
		if s[i:i+len(w)] == w {
			return true
		}
	}
	return false
}

// (a) routing: group covers the timestamp, exactly one shard, deterministic, independent of tag order.
func TestRouteHash(t *testing.T) {
	rapid.Check(t, ev.Prop(prop, "route_hash", func(t *rapid.T, c *ev.Case) {
		runGenerated(t, c, mode{sharding: "hash"}, runOpts{})
	}))
}

func TestRouteHashAlter(t *testing.T) {
	rapid.Check(t, ev.Prop(prop, "route_hash_alter", func(t *rapid.T, c *ev.Case) {
		runGenerated(t, c, mode{sharding: "hash", alter: true}, runOpts{})
	}))
}

func TestRouteRange(t *testing.T) {
	rapid.Check(t, ev.Prop(prop, "route_range", func(t *rapid.T, c *ev.Case) {
		runGenerated(t, c, mode{sharding: "range"}, runOpts{})
	}))
}

// (b) pruning soundness, ladder of condition languages.
func TestPruneAnd(t *testing.T) {
	rapid.Check(t, ev.Prop(prop, "prune_and", func(t *rapid.T, c *ev.Case) {
		runGenerated(t, c, mode{sharding: "hash", cond: "and"}, runOpts{})
	}))
}

func TestPruneOrKeys(t *testing.T) {
	rapid.Check(t, ev.Prop(prop, "prune_or_keys", func(t *rapid.T, c *ev.Case) {
		runGenerated(t, c, mode{sharding: "hash", cond: "or_keys"}, runOpts{skipA: skipA, skipB: skipB, skipC: skipC, skipD: skipD})
	}))
}

func TestPruneFull(t *testing.T) {
	rapid.Check(t, ev.Prop(prop, "prune_full", func(t *rapid.T, c *ev.Case) {
		runGenerated(t, c, mode{sharding: "hash", cond: "full"}, runOpts{skipA: skipA, skipB: skipB, skipC: skipC, skipD: skipD})
	}))
}

func TestPruneAlter(t *testing.T) {
	rapid.Check(t, ev.Prop(prop, "prune_alter", func(t *rapid.T, c *ev.Case) {
		runGenerated(t, c, mode{sharding: "hash", alter: true, cond: "full"}, runOpts{skipA: skipA, skipB: skipB, skipC: skipC, skipD: skipD})
	}))
}

func TestPruneRegexSource(t *testing.T) {
	rapid.Check(t, ev.Prop(prop, "prune_regex_source", func(t *rapid.T, c *ev.Case) {
		runGenerated(t, c, mode{sharding: "hash", regexSource: true, cond: "full"}, runOpts{skipA: skipA, skipB: skipB, skipC: skipC, skipD: skipD})
	}))
}

func TestPruneRange(t *testing.T) {
	rapid.Check(t, ev.Prop(prop, "prune_range", func(t *rapid.T, c *ev.Case) {
		runGenerated(t, c, mode{sharding: "range", cond: "full"}, runOpts{skipA: skipA, skipB: skipB, skipC: skipC, skipD: skipD})
	}))
}

// the hint-query pruning entry point (TargetShardsHintQuery): /*+ full_series */ with the complete tag set of a written series
func TestPruneHintFullSeries(t *testing.T) {
	rapid.Check(t, ev.Prop(prop, "prune_hint_full_series", func(t *rapid.T, c *ev.Case) {
		runGenerated(t, c, mode{sharding: "hash", cond: "hint"}, runOpts{skipH: skipH})
	}))
}
