package c11

import (
	"fmt"
	"testing"
	"time"

	"pgregory.net/rapid"
	"verif/internal/ev"
)

// runGenerated executes one generated case inside a rapid property and records statistics.
func runGenerated(t *rapid.T, c *ev.Case, md mode, o runOpts) {
	var cd caseDesc
	var gi *genInfo
	if md.alterDur {
		cd, gi = genCaseAlterDur(t, md)
	} else {
		cd, gi = genCase(t, md)
	}
	c.Sample(cd)
	c.Class(fmt.Sprintf("pt=%d", gi.ptNum))
	if cd.Cfg.Nodes > 1 {
		c.Class("nodes=2")
	}
	c.Class("sg=" + gi.sgDur.String())
	if len(gi.dbKey) > 0 {
		c.Class("key:db-level")
	}
	for _, m := range gi.msts {
		switch {
		case m.ddl == "":
			c.Class("mst:auto-created")
		case len(m.keys[0]) == 0:
			c.Class("key:none")
		case len(m.keys[0]) == 1:
			c.Class("key:one-tag")
		default:
			c.Class("key:several-tags")
		}
		if m.ddl != "" && containsWord(m.ddl, "SHARDS") {
			c.Class("init-num-of-shards")
		}
	}
	if len(gi.msts) > 1 {
		c.Class("mst=2")
	}
	if gi.extreme {
		c.Class("ts:extreme")
	}
	if gi.negative {
		c.Class("ts:negative")
	}
	st, err := runCase(cd, o)
	if st != nil {
		if st.rewrites > 0 {
			c.Class("rewrites")
		}
		if st.groups >= 2 {
			c.Class("groups>=2")
		}
		if st.groups >= 4 {
			c.Class("groups>=4")
		}
		if st.reshards > 0 {
			c.Class("resharded")
		}
		for i := 0; i < st.reordered; i++ {
			c.Excluded("R:post-reshard-batch-not-in-descending-time-order")
		}
		if st.alters > 0 {
			c.Class("altered")
		}
		nt := md.cond == "" && st.rowsDelivered >= 2 && st.groups >= 2
		durationClasses(c, st)
		for _, q := range st.queries {
			if q.skipped != "" {
				switch {
				case q.classA && o.skipA:
					c.Excluded("A:or-with-unconstrained-side")
				case q.classB && o.skipB:
					c.Excluded("B:two-or-more-tag-groups")
				case q.classC && o.skipC:
					c.Excluded("C:groups-under-different-shard-keys")
				case q.classH && o.skipH:
					c.Excluded("H:full_series-hint-with-tags-beyond-the-shard-key")
				default:
					c.Excluded("D:regex-source-over-differently-sharded-measurements")
				}
				continue
			}
			if q.hint {
				c.Class("q:full_series-hint")
			}
			if q.hasOr {
				c.Class("q:or")
			}
			if q.hasField {
				c.Class("q:field")
			}
			if q.hasTime {
				c.Class("q:time")
			}
			if q.hasOtherTag {
				c.Class("q:other-tag-op")
			}
			if q.hasParen {
				c.Class("q:paren")
			}
			pruned := q.mappedShards < q.shardsInRng
			if pruned {
				c.Class("q:pruned")
			}
			if q.groupsInRng >= 2 {
				c.Class("q:groups>=2")
			}
			switch {
			case q.matches == 0:
				c.Class("q:match=0")
			default:
				c.Class("q:match>=1")
			}
			if q.matchShards >= 2 {
				c.Class("q:match-shards>=2")
			}
			if q.classA {
				c.Class("q:classA-checked")
			}
			if q.classB {
				c.Class("q:classB-checked")
			}
			if q.matches >= 1 && (pruned || ((q.hasOr || q.hasField || q.hasOtherTag) && q.matchShards >= 2)) {
				nt = true
			}
			if md.alterDur {
				windowClasses(c, &q)
			}
		}
		if md.alterDur {
			// non-trivial: the policy holds live groups of >= 2 widths after >= 1 duration change and some query with a
			// lower and an upper time bound has a matching row
			nt = false
			if st.durChanges >= 1 && st.widths >= 2 {
				for _, q := range st.queries {
					if q.skipped == "" && q.lowerBound && q.upperBound && q.matches >= 1 {
						nt = true
					}
				}
			}
		}
		if nt {
			c.Nontrivial(cd)
		}
	}
	if err != nil {
		if v, ok := err.(*violation); ok {
			c.Failf(t, prop, cd, "%s", v.msg)
		}
		// the generated case could not be executed: a defect of this check, never a finding
		fmt.Printf("VERIF-INCONCLUSIVE harness error: %.600v\ncase: %.3000s\n", err, cd.String())
		c.Class("harness-error")
		t.Skip("harness error")
	}
}

// durationClasses: what a history with shard-group duration changes exercised (route_alter_duration).
func durationClasses(c *ev.Case, st *caseStats) {
	if st.durChanges == 0 {
		return
	}
	if st.lengthened > 0 {
		c.Class("duration-lengthened")
	}
	if st.shortened > 0 {
		c.Class("duration-shortened")
	}
	if st.lengthened > 0 && st.shortened > 0 {
		c.Class("duration-both-directions")
	}
	if st.durChanges >= 2 {
		c.Class("duration-changes>=2")
	}
	if st.unalignedChange > 0 {
		c.Class("duration-change-not-a-multiple")
	}
	if st.widths >= 2 {
		c.Class("group-widths>=2")
	}
	if st.widths >= 3 {
		c.Class("group-widths>=3")
	}
	if st.overlapPairs > 0 {
		c.Class("overlapping-groups-present")
		// the "no two live groups overlap" check is not applied to these histories: known finding of property C16
		c.Excluded("C16-overlap-after-shard-duration-change:live-groups-overlap")
	}
	if st.containedPairs > 0 {
		c.Class("narrow-group-inside-wide-group")
	}
	if st.overlapPairs > st.containedPairs {
		c.Class("groups-partially-overlapping")
	}
	if st.newNextToOld > 0 {
		c.Class("new-width-group-next-to-or-over-old-width-group")
	}
	if st.rowsOldWidth > 0 {
		c.Class("row-into-group-of-old-duration")
	}
	if st.rowsNewWidth > 0 {
		c.Class("row-into-group-created-after-change")
	}
	if st.rowsInTwoGroups > 0 {
		c.Class("row-time-in-2-live-groups")
	}
	if st.rewritesInTwo > 0 {
		c.Class("rewrite-of-point-in-2-live-groups")
	}
	for i := 0; i < st.movedInOverlap; i++ {
		c.Class("rewrite-moved-between-overlapping-groups")
		c.Excluded("C16-overlap-after-shard-duration-change:rewrite-moved-to-another-containing-group")
	}
}

// windowClasses: shape of a query's time range against the catalogue (route_alter_duration).
func windowClasses(c *ev.Case, q *queryInfo) {
	switch {
	case q.lowerBound && q.upperBound:
		c.Class("q:bounded")
		switch {
		case q.rangeNanos <= int64(time.Hour):
			c.Class("q:window<=1h")
		default:
			c.Class("q:window>1h")
		}
		if q.matches >= 1 {
			c.Class("q:bounded+match")
		}
	case q.lowerBound:
		c.Class("q:half-open-lower-bound-only")
	case q.upperBound:
		c.Class("q:half-open-upper-bound-only")
	default:
		c.Class("q:unbounded")
	}
	if q.groupsInRng == 0 {
		c.Class("q:no-group-in-range")
	}
	if q.widthsInRng >= 2 {
		c.Class("q:group-widths-in-range>=2")
	}
	if q.overlapInRng {
		c.Class("q:overlapping-groups-in-range")
	}
	if q.crossesBoundary && q.lowerBound && q.upperBound {
		c.Class("q:window-crosses-group-boundary")
	}
	if q.beforeEarlierSorted {
		c.Class("q:window-inside-wide-group-but-before-narrow-group")
	}
	if q.beforeEarlierSortedMatch {
		c.Class("q:window-inside-wide-group-but-before-narrow-group+match")
	}
}

func containsWord(s, w string) bool {
	for i := 0; i+len(w) <= len(s); i++ {
		if s[i:i+len(w)] == w {
			return true
		}
	}
	return false
}

// (a) routing: group covers the timestamp, exactly one shard, deterministic, independent of tag order.
func TestRouteHash(t *testing.T) {
	rapid.Check(t, ev.Prop(prop, "route_hash", func(t *rapid.T, c *ev.Case) {
		runGenerated(t, c, mode{sharding: "hash"}, runOpts{})
	}))
}

func TestRouteHashAlter(t *testing.T) {
	rapid.Check(t, ev.Prop(prop, "route_hash_alter", func(t *rapid.T, c *ev.Case) {
		runGenerated(t, c, mode{sharding: "hash", alter: true}, runOpts{})
	}))
}

// routing and shard-set completeness over histories that change the policy's shard-group duration between batches
// (groups of different widths, time-bounded queries).
func TestRouteAlterDuration(t *testing.T) {
	rapid.Check(t, ev.Prop(prop, "route_alter_duration", func(t *rapid.T, c *ev.Case) {
		runGenerated(t, c, mode{sharding: "hash", alterDur: true, cond: "window"}, runOpts{})
	}))
}

func TestRouteRange(t *testing.T) {
	rapid.Check(t, ev.Prop(prop, "route_range", func(t *rapid.T, c *ev.Case) {
		runGenerated(t, c, mode{sharding: "range"}, runOpts{})
	}))
}

// (b) pruning soundness, ladder of condition languages.
func TestPruneAnd(t *testing.T) {
	rapid.Check(t, ev.Prop(prop, "prune_and", func(t *rapid.T, c *ev.Case) {
		runGenerated(t, c, mode{sharding: "hash", cond: "and"}, runOpts{})
	}))
}

func TestPruneOrKeys(t *testing.T) {
	rapid.Check(t, ev.Prop(prop, "prune_or_keys", func(t *rapid.T, c *ev.Case) {
		runGenerated(t, c, mode{sharding: "hash", cond: "or_keys"}, runOpts{skipA: skipA, skipB: skipB, skipC: skipC, skipD: skipD})
	}))
}

func TestPruneFull(t *testing.T) {
	rapid.Check(t, ev.Prop(prop, "prune_full", func(t *rapid.T, c *ev.Case) {
		runGenerated(t, c, mode{sharding: "hash", cond: "full"}, runOpts{skipA: skipA, skipB: skipB, skipC: skipC, skipD: skipD})
	}))
}

func TestPruneAlter(t *testing.T) {
	rapid.Check(t, ev.Prop(prop, "prune_alter", func(t *rapid.T, c *ev.Case) {
		runGenerated(t, c, mode{sharding: "hash", alter: true, cond: "full"}, runOpts{skipA: skipA, skipB: skipB, skipC: skipC, skipD: skipD})
	}))
}

func TestPruneRegexSource(t *testing.T) {
	rapid.Check(t, ev.Prop(prop, "prune_regex_source", func(t *rapid.T, c *ev.Case) {
		runGenerated(t, c, mode{sharding: "hash", regexSource: true, cond: "full"}, runOpts{skipA: skipA, skipB: skipB, skipC: skipC, skipD: skipD})
	}))
}

func TestPruneRange(t *testing.T) {
	rapid.Check(t, ev.Prop(prop, "prune_range", func(t *rapid.T, c *ev.Case) {
		runGenerated(t, c, mode{sharding: "range", cond: "full"}, runOpts{skipA: skipA, skipB: skipB, skipC: skipC, skipD: skipD})
	}))
}

// the hint-query pruning entry point (TargetShardsHintQuery): /*+ full_series */ with the complete tag set of a written series
func TestPruneHintFullSeries(t *testing.T) {
	rapid.Check(t, ev.Prop(prop, "prune_hint_full_series", func(t *rapid.T, c *ev.Case) {
		runGenerated(t, c, mode{sharding: "hash", cond: "hint"}, runOpts{skipH: skipH})
	}))
}
