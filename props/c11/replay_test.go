package c11

import (
	"encoding/json"
	"testing"

	"verif/internal/ev"
)

// TestReplay re-executes saved cases (same JSON as the failure files) without rapid and with no class excluded.
func TestReplay(t *testing.T) {
	ev.RunReplays(func(raw json.RawMessage, f ev.Failure) error {
		var cd caseDesc
		if err := json.Unmarshal(raw, &cd); err != nil {
			return ev.InconclusiveError(err.Error())
		}
		if cd.Kind != "c11" {
			return ev.InconclusiveError("no replayer for kind " + cd.Kind)
		}
		_, err := runCase(cd, runOpts{})
		if err == nil {
			return nil
		}
		if v, ok := err.(*violation); ok {
			return v
		}
		return ev.InconclusiveError(err.Error())
	})
}
