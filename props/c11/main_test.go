package c11

import (
	"os"
	"strings"
	"testing"

	"github.com/openGemini/openGemini/lib/logger"
	meta2 "github.com/openGemini/openGemini/lib/util/lifted/influx/meta"
	"go.uber.org/zap"
	"verif/internal/ev"
)

const prop = "C11"

// skipKnown: leave the two known-finding classes of pruning (A, B; see campaign.py) out of the higher rungs.
// C11_CHECK_KNOWN=A, =B or =AB checks the named classes too (used to re-derive the findings).
var (
	skipA = false // class A fixed in /repo (af03cae): always checked
	skipB = false // class B fixed in /repo (9794895): always checked
	skipC = !strings.Contains(os.Getenv("C11_CHECK_KNOWN"), "C")
	skipD = !strings.Contains(os.Getenv("C11_CHECK_KNOWN"), "D")
	skipR = !strings.Contains(os.Getenv("C11_CHECK_KNOWN"), "R")
	skipH = !strings.Contains(os.Getenv("C11_CHECK_KNOWN"), "H")
)

func TestMain(m *testing.M) {
	// what ts-meta's service.Open / the meta client do at start-up, with a silent sink
	logger.SetLogger(zap.NewNop())
	meta2.DataLogger = zap.NewNop()
	ev.Main(m)
}
