package c11

// Generators: cluster configuration, measurements / shard keys (as DDL text), points (as line protocol text, tags in
// generated order) with timestamps on and around shard-group boundaries, and condition trees (as InfluxQL text).

import (
	"fmt"
	"math"
	"sort"
	"strings"
	"time"

	"pgregory.net/rapid"
)

var tagKeys = []string{"az", "host", "region", "svc"}
var tagVals = []string{"a", "b", "c", "ab", "a,b"}

const (
	minNano = int64(math.MinInt64) + 2 // models.MinNanoTime
	maxNano = int64(math.MaxInt64) - 1 // models.MaxNanoTime
)

type mode struct {
	sharding    string // "hash" | "range"
	alter       bool   // ALTER MEASUREMENT ... SHARDKEY between batches
	regexSource bool   // FROM /m.*/ over two measurements
	cond        string // "" (no queries) | "and" | "or_keys" | "full" | "hint" | "window" (alterDur)
	alterDur    bool   // ALTER RETENTION POLICY ... SHARD DURATION between batches (own generator: gen_alterdur_test.go)
}

type mstGen struct {
	name     string
	ddl      string     // "" = created by the first write
	keys     [][]string // shard key versions (creation, then alters); nil entry = no shard key
	required []string   // tags every point of the measurement carries
}

type pointSpec struct {
	mst    string
	tags   map[string]string
	order  []string // tag order in the written line
	fields []string // rendered fields without id
	ts     int64
	id     int64
}

type genInfo struct {
	ptNum    int
	sgDur    time.Duration
	dbKey    []string
	msts     []*mstGen
	points   []*pointSpec
	extreme  bool
	negative bool
}

func subset(t *rapid.T, label string, pool []string, min, max int) []string {
	n := rapid.IntRange(min, max).Draw(t, label+"_n")
	perm := rapid.Permutation(pool).Draw(t, label)
	out := append([]string(nil), perm[:n]...)
	return out
}

func sortedCopy(a []string) []string {
	b := append([]string(nil), a...)
	sort.Strings(b)
	return b
}

func union(a, b []string) []string {
	m := map[string]bool{}
	for _, x := range a {
		m[x] = true
	}
	for _, x := range b {
		m[x] = true
	}
	out := make([]string, 0, len(m))
	for k := range m {
		out = append(out, k)
	}
	sort.Strings(out)
	return out
}

func escTag(v string) string {
	r := strings.NewReplacer(",", `\,`, " ", `\ `, "=", `\=`)
	return r.Replace(v)
}

func (p *pointSpec) line() string {
	var sb strings.Builder
	sb.WriteString(p.mst)
	for _, k := range p.order {
		sb.WriteString("," + k + "=" + escTag(p.tags[k]))
	}
	sb.WriteString(" ")
	fs := append([]string{fmt.Sprintf("id=%di", p.id)}, p.fields...)
	sb.WriteString(strings.Join(fs, ","))
	fmt.Fprintf(&sb, " %d", p.ts)
	return sb.String()
}

func genCase(t *rapid.T, md mode) (caseDesc, *genInfo) {
	gi := &genInfo{}
	cd := caseDesc{Kind: "c11"}
	// ---- cluster
	nodes := rapid.SampledFrom([]int{1, 1, 1, 2}).Draw(t, "nodes")
	maxPer := 8 / nodes
	per := rapid.IntRange(1, maxPer).Draw(t, "pt_per_node")
	gi.ptNum = nodes * per
	cd.Cfg = clusterCfg{Nodes: nodes, PtPerNode: per}
	sg := rapid.SampledFrom([]string{"", "1h", "90m", "1d", "1h"}).Draw(t, "shard_duration")
	switch sg {
	case "":
		gi.sgDur = 168 * time.Hour
	case "1h":
		gi.sgDur = time.Hour
	case "90m":
		gi.sgDur = 90 * time.Minute
	case "1d":
		gi.sgDur = 24 * time.Hour
	}
	create := "CREATE DATABASE " + dbName + " WITH"
	if sg != "" {
		create += " SHARD DURATION " + sg
	}
	create += " NAME " + rpName
	if md.sharding == "hash" && rapid.IntRange(0, 4).Draw(t, "db_key") == 0 {
		gi.dbKey = sortedCopy(subset(t, "db_shardkey", tagKeys, 1, 2))
		create += " SHARDKEY " + strings.Join(rapid.Permutation(gi.dbKey).Draw(t, "db_key_order"), ",")
	}
	cd.Cfg.CreateDB = create

	// ---- measurements
	nm := rapid.IntRange(1, 2).Draw(t, "n_mst")
	if md.regexSource {
		nm = 2
	}
	// regex sources: half of the cases give both measurements the same sharding (the rest is known class D)
	compatible := md.regexSource && rapid.IntRange(0, 3).Draw(t, "compatible") > 0
	for i := 0; i < nm; i++ {
		m := &mstGen{name: fmt.Sprintf("m%d", i)}
		explicit := md.sharding == "range" || md.alter || rapid.IntRange(0, 3).Draw(t, "explicit") > 0
		if compatible && i > 0 {
			explicit = gi.msts[0].ddl != ""
		}
		if explicit {
			var key []string
			if compatible && i > 0 {
				key = gi.msts[0].keys[0]
			} else if rapid.IntRange(0, 5).Draw(t, "has_key") > 0 {
				key = sortedCopy(subset(t, "shardkey", tagKeys, 1, 3))
			}
			ddl := "CREATE MEASUREMENT " + dbName + "." + rpName + "." + m.name
			var opts []string
			if len(key) > 0 {
				opts = append(opts, "SHARDKEY "+strings.Join(rapid.Permutation(key).Draw(t, "key_order"), ","))
			}
			if md.sharding == "hash" && gi.ptNum >= 2 && rapid.IntRange(0, 2).Draw(t, "init_shards") == 0 && !(md.regexSource && compatible) {
				if rapid.IntRange(0, 3).Draw(t, "shards_auto") == 0 {
					// SHARDS AUTO takes the ts-meta configuration value num-of-shards
					cd.Cfg.NumOfShards = rapid.IntRange(1, gi.ptNum-1).Draw(t, "cfg_num_of_shards")
					opts = append(opts, "SHARDS AUTO")
				} else {
					opts = append(opts, fmt.Sprintf("SHARDS %d", rapid.IntRange(1, gi.ptNum-1).Draw(t, "shards")))
				}
			}
			if md.sharding == "range" {
				opts = append(opts, "TYPE range")
			} else if rapid.Bool().Draw(t, "type_hash") {
				opts = append(opts, "TYPE hash")
			}
			if len(opts) > 0 {
				ddl += " WITH " + strings.Join(opts, " ")
			}
			m.ddl = ddl
			m.keys = append(m.keys, key)
		} else {
			m.keys = append(m.keys, nil)
		}
		m.required = union(gi.dbKey, m.keys[0])
		gi.msts = append(gi.msts, m)
	}
	for _, m := range gi.msts {
		if m.ddl != "" {
			cd.Ops = append(cd.Ops, op{Kind: "ddl", Text: m.ddl})
		}
	}
	// alters are decided now (the points must carry the tags of every key version)
	type alterAt struct {
		batch int
		text  string
	}
	var alters []alterAt
	nBatches := rapid.IntRange(1, 3).Draw(t, "n_batches")
	if md.alter {
		nBatches = rapid.IntRange(2, 4).Draw(t, "n_batches_alter")
		na := rapid.IntRange(1, 2).Draw(t, "n_alter")
		for a := 0; a < na; a++ {
			m := gi.msts[rapid.IntRange(0, len(gi.msts)-1).Draw(t, "alter_mst")]
			key := sortedCopy(subset(t, "alter_key", tagKeys, 1, 3))
			typ := "hash"
			if md.sharding == "range" {
				typ = "range"
			}
			alters = append(alters, alterAt{batch: rapid.IntRange(1, nBatches-1).Draw(t, "alter_before_batch"),
				text: fmt.Sprintf("ALTER MEASUREMENT %s.%s.%s WITH SHARDKEY %s TYPE %s", dbName, rpName, m.name, strings.Join(key, ","), typ)})
			m.keys = append(m.keys, key)
			m.required = union(m.required, key)
		}
	}

	// ---- points
	// the line protocol parser rejects negative timestamps, so the domain is [0, MaxNanoTime]
	anchorKind := rapid.SampledFrom([]string{"epoch", "recent", "recent", "recent", "max"}).Draw(t, "anchor")
	var anchor time.Time
	ks := []int{-1, 0, 1, 2}
	switch anchorKind {
	case "epoch":
		anchor = time.Unix(0, 0)
		ks = []int{0, 1, 2}
	case "recent":
		anchor = time.Unix(1_700_000_000+int64(rapid.IntRange(0, 1_000_000).Draw(t, "recent_off")), 0)
	case "max":
		anchor = time.Unix(0, maxNano)
		ks = []int{-2, -1, 0}
		gi.extreme = true
	}
	base := anchor.Truncate(gi.sgDur)
	lo, hi := time.Unix(0, 0), time.Unix(0, maxNano)
	genTS := func() int64 {
		k := rapid.SampledFrom(ks).Draw(t, "k")
		var delta time.Duration
		switch rapid.IntRange(0, 6).Draw(t, "delta_kind") {
		case 0:
			delta = 0
		case 1:
			delta = 1
		case 2:
			delta = -1
		case 3:
			delta = gi.sgDur / 2
		case 4:
			delta = gi.sgDur - 1
		default:
			delta = time.Duration(rapid.Int64Range(0, int64(gi.sgDur)-1).Draw(t, "delta"))
		}
		ts := base.Add(time.Duration(k) * gi.sgDur).Add(delta)
		if ts.Before(lo) {
			ts = lo.Add(time.Duration(rapid.Int64Range(0, 3).Draw(t, "lo_off")))
		}
		if ts.After(hi) {
			ts = hi.Add(-time.Duration(rapid.Int64Range(0, 3).Draw(t, "hi_off")))
		}
		return ts.UnixNano()
	}
	nvals := rapid.IntRange(2, len(tagVals)).Draw(t, "n_vals")
	type genPoint struct {
		p     *pointSpec
		batch int
	}
	// slices of custom generators shrink well (rapid can drop whole elements)
	pointGen := rapid.Custom(func(t *rapid.T) genPoint {
		m := gi.msts[rapid.IntRange(0, len(gi.msts)-1).Draw(t, "p_mst")]
		p := &pointSpec{mst: m.name, tags: map[string]string{}}
		for _, k := range tagKeys {
			req := false
			for _, r := range m.required {
				if r == k {
					req = true
				}
			}
			if req || rapid.IntRange(0, 9).Draw(t, "has_tag") < 6 {
				p.tags[k] = tagVals[rapid.IntRange(0, nvals-1).Draw(t, "tag_val")]
			}
		}
		for k := range p.tags {
			p.order = append(p.order, k)
		}
		sort.Strings(p.order)
		p.order = rapid.Permutation(p.order).Draw(t, "tag_order")
		if rapid.IntRange(0, 9).Draw(t, "has_fi") < 7 {
			p.fields = append(p.fields, fmt.Sprintf("fi=%di", rapid.IntRange(-3, 5).Draw(t, "fi")))
		}
		if rapid.IntRange(0, 9).Draw(t, "has_ff") < 6 {
			p.fields = append(p.fields, "ff="+rapid.SampledFrom([]string{"-1.5", "0", "0.5", "2", "3.25"}).Draw(t, "ff"))
		}
		if rapid.IntRange(0, 9).Draw(t, "has_fs") < 4 {
			p.fields = append(p.fields, `fs="`+rapid.SampledFrom([]string{"x", "y", ""}).Draw(t, "fs")+`"`)
		}
		if rapid.IntRange(0, 9).Draw(t, "has_fb") < 3 {
			p.fields = append(p.fields, "fb="+rapid.SampledFrom([]string{"true", "false"}).Draw(t, "fb"))
		}
		p.ts = genTS()
		return genPoint{p: p, batch: rapid.IntRange(0, nBatches-1).Draw(t, "batch_of")}
	})
	gps := rapid.SliceOfN(pointGen, 1, 28).Draw(t, "points")
	np := len(gps)
	batchOf := make([]int, np)
	for i, g := range gps {
		g.p.id = int64(i + 1)
		gi.points = append(gi.points, g.p)
		batchOf[i] = g.batch
	}
	// ---- batches (with re-writes of earlier points, tags in another order), alters and reshards in between
	nextID := int64(np + 1)
	var written []*pointSpec
	resharded := false
	for b := 0; b < nBatches; b++ {
		for _, a := range alters {
			if a.batch == b {
				cd.Ops = append(cd.Ops, op{Kind: "ddl", Text: a.text})
			}
		}
		if md.sharding == "range" && b > 0 && rapid.IntRange(0, 2).Draw(t, "reshard") > 0 {
			picks := rapid.SliceOfN(rapid.IntRange(0, 63), 1, 3).Draw(t, "picks")
			cd.Ops = append(cd.Ops, op{Kind: "reshard", Picks: picks})
			resharded = true
		}
		var lines []string
		for i, p := range gi.points {
			if batchOf[i] == b {
				lines = append(lines, p.line())
				written = append(written, p)
			}
		}
		if b > 0 && len(written) > 0 {
			rw := rapid.SliceOfN(rapid.Custom(func(t *rapid.T) *pointSpec {
				src := written[rapid.IntRange(0, len(written)-1).Draw(t, "rewrite_of")]
				cp := *src
				cp.order = rapid.Permutation(sortedCopy(src.order)).Draw(t, "rewrite_order")
				return &cp
			}), 0, 3).Draw(t, "rewrites")
			for _, cp := range rw {
				cp.id = nextID
				nextID++
				lines = append(lines, cp.line())
			}
		}
		if len(lines) > 0 {
			cd.Ops = append(cd.Ops, op{Kind: "write", Lines: lines, Desc: resharded && skipR})
		}
	}

	// ---- queries
	if md.cond != "" {
		cd.Queries = rapid.SliceOfN(rapid.Custom(func(t *rapid.T) string { return genQuery(t, md, gi) }), 1, 5).Draw(t, "queries")
	}
	return cd, gi
}

// ---------------------------------------------------------------- conditions

type cnode struct {
	kind string // atom | and | or | paren
	l, r *cnode
	text string
}

func (n *cnode) render(parent string) string {
	switch n.kind {
	case "atom":
		return n.text
	case "paren":
		return "(" + n.l.render("paren") + ")"
	case "and":
		return n.l.render("and") + " AND " + n.r.render("and")
	default:
		s := n.l.render("or") + " OR " + n.r.render("or")
		if parent == "and" {
			return "(" + s + ")"
		}
		return s
	}
}

type condCtx struct {
	md      mode
	gi      *genInfo
	m       *mstGen
	keys    []string // shard key tags relevant for the measurement (db level or all versions)
	target  *pointSpec
	hasTime bool
}

func quote(s string) string { return "'" + strings.ReplaceAll(s, "'", `\'`) + "'" }

func (cc *condCtx) tagValueFor(t *rapid.T, key string) string {
	if cc.target != nil && rapid.IntRange(0, 9).Draw(t, "use_target") < 7 {
		return cc.target.tags[key] // "" when absent
	}
	return tagVals[rapid.IntRange(0, len(tagVals)-1).Draw(t, "lit_val")]
}

func (cc *condCtx) keyEq(t *rapid.T) *cnode {
	pool := cc.keys
	if len(pool) == 0 {
		pool = tagKeys
	}
	k := pool[rapid.IntRange(0, len(pool)-1).Draw(t, "key_tag")]
	return &cnode{kind: "atom", text: k + " = " + quote(cc.tagValueFor(t, k))}
}

func (cc *condCtx) fullKey(t *rapid.T) *cnode {
	// equality on every tag of one shard key version: the shape that makes the mapper prune
	var key []string
	if len(cc.gi.dbKey) > 0 {
		key = cc.gi.dbKey
	} else {
		key = cc.m.keys[rapid.IntRange(0, len(cc.m.keys)-1).Draw(t, "key_version")]
	}
	if len(key) == 0 {
		return cc.keyEq(t)
	}
	order := rapid.Permutation(key).Draw(t, "fullkey_order")
	var n *cnode
	for _, k := range order {
		a := &cnode{kind: "atom", text: k + " = " + quote(cc.tagValueFor(t, k))}
		if n == nil {
			n = a
		} else {
			n = &cnode{kind: "and", l: n, r: a}
		}
	}
	return n
}

func (cc *condCtx) otherTag(t *rapid.T) *cnode {
	keys := append(append([]string(nil), tagKeys...), "nokey")
	k := keys[rapid.IntRange(0, len(keys)-1).Draw(t, "tag")]
	switch rapid.IntRange(0, 4).Draw(t, "tag_op") {
	case 0:
		return &cnode{kind: "atom", text: k + " = " + quote(cc.tagValueFor(t, k))}
	case 1:
		return &cnode{kind: "atom", text: k + " != " + quote(cc.tagValueFor(t, k))}
	case 2:
		return &cnode{kind: "atom", text: k + " = ''"}
	case 3:
		res := []string{"/^a$/", "/a/", "/^a/", "/b$/", "/^$/", "/^c$/"}
		if cc.md.cond != "and" {
			// an exact alternation is rewritten to a parenthesised OR of equalities by the compiler: it belongs to the OR rungs
			res = append(res, "/^(a|b)$/", "/^(ab|c)$/")
		}
		re := rapid.SampledFrom(res).Draw(t, "regex")
		return &cnode{kind: "atom", text: k + " =~ " + re}
	default:
		re := rapid.SampledFrom([]string{"/^a$/", "/^(a|b)$/", "/a/", "/^b/", "/c$/"}).Draw(t, "nregex")
		return &cnode{kind: "atom", text: k + " !~ " + re}
	}
}

func (cc *condCtx) fieldAtom(t *rapid.T) *cnode {
	switch rapid.IntRange(0, 3).Draw(t, "field") {
	case 0:
		op := rapid.SampledFrom([]string{"=", "!=", "<", "<=", ">", ">="}).Draw(t, "op")
		return &cnode{kind: "atom", text: fmt.Sprintf("fi %s %d", op, rapid.IntRange(-3, 5).Draw(t, "fi_lit"))}
	case 1:
		op := rapid.SampledFrom([]string{"=", "!=", "<", "<=", ">", ">="}).Draw(t, "op")
		return &cnode{kind: "atom", text: fmt.Sprintf("ff %s %s", op, rapid.SampledFrom([]string{"-1.5", "0.0", "0.5", "2.0", "3.25", "1"}).Draw(t, "ff_lit"))}
	case 2:
		op := rapid.SampledFrom([]string{"=", "!="}).Draw(t, "op")
		return &cnode{kind: "atom", text: fmt.Sprintf("fs %s %s", op, quote(rapid.SampledFrom([]string{"x", "y", ""}).Draw(t, "fs_lit")))}
	default:
		return &cnode{kind: "atom", text: "fb = " + rapid.SampledFrom([]string{"true", "false"}).Draw(t, "fb_lit")}
	}
}

func (cc *condCtx) timeAtom(t *rapid.T) *cnode {
	cc.hasTime = true
	var ref int64
	if cc.target != nil {
		ref = cc.target.ts
	} else if len(cc.gi.points) > 0 {
		ref = cc.gi.points[rapid.IntRange(0, len(cc.gi.points)-1).Draw(t, "time_ref")].ts
	}
	tt := time.Unix(0, ref)
	start := tt.Truncate(cc.gi.sgDur)
	cands := []time.Time{tt, tt.Add(1), tt.Add(-1), start, start.Add(-1), start.Add(cc.gi.sgDur), start.Add(cc.gi.sgDur - 1), start.Add(cc.gi.sgDur / 2)}
	c := cands[rapid.IntRange(0, len(cands)-1).Draw(t, "time_cand")]
	if c.Before(time.Unix(0, minNano+1)) {
		c = time.Unix(0, minNano+1)
	}
	if c.After(time.Unix(0, maxNano)) {
		c = time.Unix(0, maxNano)
	}
	op := rapid.SampledFrom([]string{">=", ">", "<", "<=", ">=", "<", "="}).Draw(t, "time_op")
	lit := fmt.Sprintf("%d", c.UnixNano())
	if y := c.UTC().Year(); y >= 1971 && y <= 2200 && rapid.Bool().Draw(t, "time_as_string") {
		lit = quote(c.UTC().Format(time.RFC3339Nano))
	}
	return &cnode{kind: "atom", text: "time " + op + " " + lit}
}

func (cc *condCtx) atom(t *rapid.T, andPath bool) *cnode {
	if andPath && rapid.IntRange(0, 9).Draw(t, "time_atom") < 2 {
		return cc.timeAtom(t)
	}
	if cc.md.cond == "or_keys" {
		if rapid.IntRange(0, 3).Draw(t, "full_key") == 0 {
			return cc.fullKey(t)
		}
		return cc.keyEq(t)
	}
	switch rapid.IntRange(0, 9).Draw(t, "atom_kind") {
	case 0, 1, 2:
		return cc.keyEq(t)
	case 3, 4:
		return cc.fullKey(t)
	case 5, 6:
		return cc.otherTag(t)
	default:
		return cc.fieldAtom(t)
	}
}

func (cc *condCtx) tree(t *rapid.T, depth int, andPath bool) *cnode {
	if depth == 0 || rapid.IntRange(0, 9).Draw(t, "leaf") < 3 {
		return cc.atom(t, andPath)
	}
	kinds := []string{"and", "and", "and", "paren"}
	if cc.md.cond != "and" {
		kinds = append(kinds, "or", "or", "or")
	}
	switch rapid.SampledFrom(kinds).Draw(t, "node") {
	case "and":
		return &cnode{kind: "and", l: cc.tree(t, depth-1, andPath), r: cc.tree(t, depth-1, andPath)}
	case "or":
		return &cnode{kind: "or", l: cc.tree(t, depth-1, false), r: cc.tree(t, depth-1, false)}
	default:
		return &cnode{kind: "paren", l: cc.tree(t, depth-1, andPath)}
	}
}

func genQuery(t *rapid.T, md mode, gi *genInfo) string {
	// only measurements that exist (created by DDL or by a written point) can be queried
	var existing []*mstGen
	for _, x := range gi.msts {
		has := x.ddl != ""
		for _, p := range gi.points {
			if p.mst == x.name {
				has = true
			}
		}
		if has {
			existing = append(existing, x)
		}
	}
	m := existing[rapid.IntRange(0, len(existing)-1).Draw(t, "q_mst")]
	cc := &condCtx{md: md, gi: gi, m: m}
	if len(gi.dbKey) > 0 {
		cc.keys = gi.dbKey
	} else {
		for _, k := range m.keys {
			cc.keys = union(cc.keys, k)
		}
	}
	var mine []*pointSpec
	for _, p := range gi.points {
		if p.mst == m.name || md.regexSource {
			mine = append(mine, p)
		}
	}
	if len(mine) > 0 && rapid.IntRange(0, 9).Draw(t, "with_target") < 8 {
		cc.target = mine[rapid.IntRange(0, len(mine)-1).Draw(t, "target")]
	}
	if md.cond == "hint" {
		// exact series of a written point, all its tags as equalities (the shape the hint is documented for)
		var withTags []*pointSpec
		for _, p := range mine {
			if len(p.tags) > 0 {
				withTags = append(withTags, p)
			}
		}
		if len(withTags) == 0 {
			return "SELECT * FROM " + dbName + "." + rpName + "." + m.name
		}
		tp := withTags[rapid.IntRange(0, len(withTags)-1).Draw(t, "hint_target")]
		var atoms []string
		for _, k := range rapid.Permutation(sortedCopy(tp.order)).Draw(t, "hint_order") {
			atoms = append(atoms, k+" = "+quote(tp.tags[k]))
		}
		return "SELECT /*+ full_series */ * FROM " + dbName + "." + rpName + "." + tp.mst + " WHERE (" + strings.Join(atoms, " AND ") + ")"
	}
	src := dbName + "." + rpName + "." + m.name
	if md.regexSource {
		src = dbName + "." + rpName + "./^m[0-9]$/"
	}
	q := "SELECT * FROM " + src
	if rapid.IntRange(0, 19).Draw(t, "no_where") == 0 {
		return q
	}
	tr := cc.tree(t, rapid.IntRange(1, 4).Draw(t, "depth"), true)
	return q + " WHERE " + tr.render("")
}
