package c11

// Generator of the route_alter_duration campaign: histories in which the retention policy's shard-group duration is
// changed between write batches (ALTER RETENTION POLICY ... SHARD DURATION, both directions, several times, different
// initial durations), so that one policy holds shard groups of different widths - next to each other and, on the pinned
// tree, overlapping (known finding C16-overlap-after-shard-duration-change) - and queries whose time range is bounded
// (windows of 30 min - 3 h around written timestamps and around group boundaries), half-open or absent.

import (
	"fmt"
	"sort"
	"strings"
	"time"

	"pgregory.net/rapid"
)

var durByText = map[string]time.Duration{
	"":    168 * time.Hour, // default of a policy with infinite retention
	"1h":  time.Hour,
	"90m": 90 * time.Minute,
	"2h":  2 * time.Hour,
	"4h":  4 * time.Hour,
	"6h":  6 * time.Hour,
	"1d":  24 * time.Hour,
	"7d":  168 * time.Hour,
}

type span struct{ start, end time.Time }

func genCaseAlterDur(t *rapid.T, md mode) (caseDesc, *genInfo) {
	gi := &genInfo{}
	cd := caseDesc{Kind: "c11"}
	// ---- cluster and policy
	nodes := rapid.SampledFrom([]int{1, 1, 1, 2}).Draw(t, "nodes")
	per := rapid.IntRange(1, 8/nodes).Draw(t, "pt_per_node")
	gi.ptNum = nodes * per
	cd.Cfg = clusterCfg{Nodes: nodes, PtPerNode: per}
	initial := rapid.SampledFrom([]string{"1h", "1h", "1h", "1d", "1d", "90m", "2h", "6h", "", "4h", "90m"}).Draw(t, "shard_duration")
	gi.sgDur = durByText[initial]
	create := "CREATE DATABASE " + dbName + " WITH"
	if initial != "" {
		create += " SHARD DURATION " + initial
	}
	create += " NAME " + rpName
	if rapid.IntRange(0, 5).Draw(t, "db_key") == 0 {
		gi.dbKey = sortedCopy(subset(t, "db_shardkey", tagKeys, 1, 2))
		create += " SHARDKEY " + strings.Join(rapid.Permutation(gi.dbKey).Draw(t, "db_key_order"), ",")
	}
	cd.Cfg.CreateDB = create

	// ---- measurements (hash sharding; shard key none / one / several tags; sometimes SHARDS n)
	nm := rapid.IntRange(1, 2).Draw(t, "n_mst")
	for i := 0; i < nm; i++ {
		m := &mstGen{name: fmt.Sprintf("m%d", i)}
		if rapid.IntRange(0, 3).Draw(t, "explicit") > 0 {
			var key []string
			if rapid.IntRange(0, 4).Draw(t, "has_key") > 0 {
				key = sortedCopy(subset(t, "shardkey", tagKeys, 1, 2))
			}
			ddl := "CREATE MEASUREMENT " + dbName + "." + rpName + "." + m.name
			var opts []string
			if len(key) > 0 {
				opts = append(opts, "SHARDKEY "+strings.Join(rapid.Permutation(key).Draw(t, "key_order"), ","))
			}
			if gi.ptNum >= 2 && rapid.IntRange(0, 3).Draw(t, "init_shards") == 0 {
				opts = append(opts, fmt.Sprintf("SHARDS %d", rapid.IntRange(1, gi.ptNum-1).Draw(t, "shards")))
			}
			if len(opts) > 0 {
				ddl += " WITH " + strings.Join(opts, " ")
			}
			m.ddl = ddl
			m.keys = append(m.keys, key)
			cd.Ops = append(cd.Ops, op{Kind: "ddl", Text: ddl})
		} else {
			m.keys = append(m.keys, nil)
		}
		m.required = union(gi.dbKey, m.keys[0])
		gi.msts = append(gi.msts, m)
	}

	// ---- duration changes: change j is applied before batch j+1
	nChanges := rapid.IntRange(1, 3).Draw(t, "n_changes")
	pool := []string{"1d", "1h", "1d", "1h", "90m", "2h", "6h", "7d", "4h", "90m"}
	durs := []time.Duration{gi.sgDur} // duration in force while batch b is written
	var changeText []string
	for j := 0; j < nChanges; j++ {
		k := rapid.IntRange(0, len(pool)-1).Draw(t, "new_duration")
		for durByText[pool[k]] == durs[len(durs)-1] {
			k = (k + 1) % len(pool)
		}
		changeText = append(changeText, pool[k])
		durs = append(durs, durByText[pool[k]])
	}
	nBatches := nChanges + 1 + rapid.IntRange(0, 1).Draw(t, "extra_batches")
	for len(durs) < nBatches {
		durs = append(durs, durs[len(durs)-1])
	}

	// ---- points: a few days around a day boundary, hours of the day, on and around hour/half-hour boundaries
	var base time.Time
	ks := []int{0, 0, 0, 0, 1, -1, 1, 2}
	if rapid.IntRange(0, 9).Draw(t, "anchor_epoch") == 0 {
		base = time.Unix(0, 0)
		ks = []int{0, 0, 0, 1, 2}
		gi.extreme = true
	} else {
		base = time.Unix(int64(19675+rapid.IntRange(0, 400).Draw(t, "day"))*86400, 0)
	}
	genTS := func(t *rapid.T) int64 {
		k := rapid.SampledFrom(ks).Draw(t, "k")
		h := rapid.IntRange(0, 23).Draw(t, "hour")
		var delta time.Duration
		switch rapid.IntRange(0, 6).Draw(t, "delta_kind") {
		case 0:
			delta = 30 * time.Minute
		case 1:
			delta = 0
		case 2:
			delta = time.Hour - 1
		case 3:
			delta = 1
		case 4:
			delta = 30*time.Minute - 1
		default:
			delta = time.Duration(rapid.Int64Range(0, int64(time.Hour)-1).Draw(t, "delta"))
		}
		return base.Add(time.Duration(k)*24*time.Hour + time.Duration(h)*time.Hour + delta).UnixNano()
	}
	nvals := rapid.IntRange(2, 4).Draw(t, "n_vals")
	type genPoint struct {
		p     *pointSpec
		batch int
	}
	pointGen := rapid.Custom(func(t *rapid.T) genPoint {
		m := gi.msts[rapid.IntRange(0, len(gi.msts)-1).Draw(t, "p_mst")]
		p := &pointSpec{mst: m.name, tags: map[string]string{}}
		for _, k := range tagKeys {
			req := false
			for _, r := range m.required {
				if r == k {
					req = true
				}
			}
			if req || rapid.IntRange(0, 9).Draw(t, "has_tag") < 5 {
				p.tags[k] = tagVals[rapid.IntRange(0, nvals-1).Draw(t, "tag_val")]
			}
		}
		for k := range p.tags {
			p.order = append(p.order, k)
		}
		sort.Strings(p.order)
		p.order = rapid.Permutation(p.order).Draw(t, "tag_order")
		if rapid.IntRange(0, 9).Draw(t, "has_fi") < 7 {
			p.fields = append(p.fields, fmt.Sprintf("fi=%di", rapid.IntRange(-3, 5).Draw(t, "fi")))
		}
		if rapid.IntRange(0, 9).Draw(t, "has_ff") < 4 {
			p.fields = append(p.fields, "ff="+rapid.SampledFrom([]string{"-1.5", "0", "0.5", "2", "3.25"}).Draw(t, "ff"))
		}
		p.ts = genTS(t)
		return genPoint{p: p, batch: rapid.IntRange(0, nBatches-1).Draw(t, "batch_of")}
	})
	gps := rapid.SliceOfN(pointGen, 2, 24).Draw(t, "points")
	batchOf := make([]int, len(gps))
	for i, g := range gps {
		g.p.id = int64(i + 1)
		gi.points = append(gi.points, g.p)
		batchOf[i] = g.batch
	}

	// ---- batches with re-writes of earlier points; the duration changes in between.
	// spans: the groups the generator expects (a timestamp no expected group contains opens the span of the duration in
	// force) - only used to place query windows, the checks read the real catalogue.
	var spans []span
	expect := func(ts int64, d time.Duration) {
		tt := time.Unix(0, ts)
		for _, s := range spans {
			if !tt.Before(s.start) && tt.Before(s.end) {
				return
			}
		}
		st := tt.Truncate(d)
		spans = append(spans, span{st, st.Add(d)})
	}
	nextID := int64(len(gps) + 1)
	var written []*pointSpec
	for b := 0; b < nBatches; b++ {
		if b >= 1 && b-1 < len(changeText) {
			cd.Ops = append(cd.Ops, op{Kind: "ddl", Text: fmt.Sprintf("ALTER RETENTION POLICY %s ON %s SHARD DURATION %s", rpName, dbName, changeText[b-1])})
		}
		var lines []string
		for i, p := range gi.points {
			if batchOf[i] == b {
				lines = append(lines, p.line())
				written = append(written, p)
				expect(p.ts, durs[b])
			}
		}
		if b > 0 && len(written) > 0 {
			rw := rapid.SliceOfN(rapid.Custom(func(t *rapid.T) *pointSpec {
				src := written[rapid.IntRange(0, len(written)-1).Draw(t, "rewrite_of")]
				cp := *src
				cp.order = rapid.Permutation(sortedCopy(src.order)).Draw(t, "rewrite_order")
				return &cp
			}), 0, 3).Draw(t, "rewrites")
			for _, cp := range rw {
				cp.id = nextID
				nextID++
				lines = append(lines, cp.line())
			}
		}
		if len(lines) > 0 {
			cd.Ops = append(cd.Ops, op{Kind: "write", Lines: lines})
		}
	}

	// ---- queries
	cd.Queries = rapid.SliceOfN(rapid.Custom(func(t *rapid.T) string { return genWindowQuery(t, md, gi, spans) }), 2, 6).Draw(t, "queries")
	return cd, gi
}

func timeLiteral(t *rapid.T, c time.Time) string {
	if c.Before(time.Unix(0, minNano+1)) {
		c = time.Unix(0, minNano+1)
	}
	if c.After(time.Unix(0, maxNano)) {
		c = time.Unix(0, maxNano)
	}
	if y := c.UTC().Year(); y >= 1971 && y <= 2200 && rapid.Bool().Draw(t, "time_as_string") {
		return quote(c.UTC().Format(time.RFC3339Nano))
	}
	return fmt.Sprintf("%d", c.UnixNano())
}

// genWindowQuery: SELECT with a time window / half-open range / no time condition, optionally AND-ed with tag and field atoms
// of the AND rung.
func genWindowQuery(t *rapid.T, md mode, gi *genInfo, spans []span) string {
	var existing []*mstGen
	for _, x := range gi.msts {
		has := x.ddl != ""
		for _, p := range gi.points {
			if p.mst == x.name {
				has = true
			}
		}
		if has {
			existing = append(existing, x)
		}
	}
	m := existing[rapid.IntRange(0, len(existing)-1).Draw(t, "q_mst")]
	cc := &condCtx{md: mode{sharding: "hash", cond: "and"}, gi: gi, m: m}
	if len(gi.dbKey) > 0 {
		cc.keys = gi.dbKey
	} else {
		for _, k := range m.keys {
			cc.keys = union(cc.keys, k)
		}
	}
	var mine []*pointSpec
	for _, p := range gi.points {
		if p.mst == m.name {
			mine = append(mine, p)
		}
	}
	if len(mine) > 0 && rapid.IntRange(0, 9).Draw(t, "with_target") < 8 {
		cc.target = mine[rapid.IntRange(0, len(mine)-1).Draw(t, "target")]
	}
	// reference instant: the target's timestamp, another written timestamp, or a boundary of an expected group
	var ref time.Time
	switch k := rapid.IntRange(0, 9).Draw(t, "ref_kind"); {
	case k < 4 && cc.target != nil:
		ref = time.Unix(0, cc.target.ts)
	case k < 6 || len(spans) == 0:
		ref = time.Unix(0, gi.points[rapid.IntRange(0, len(gi.points)-1).Draw(t, "ref_point")].ts)
	default:
		s := spans[rapid.IntRange(0, len(spans)-1).Draw(t, "ref_span")]
		if rapid.Bool().Draw(t, "ref_end") {
			ref = s.end
		} else {
			ref = s.start
		}
	}
	w := rapid.SampledFrom([]time.Duration{time.Hour, 30 * time.Minute, 90 * time.Minute, 2 * time.Hour, 3 * time.Hour, 0}).Draw(t, "width")
	if w == 0 {
		w = time.Duration(rapid.IntRange(30, 180).Draw(t, "width_min")) * time.Minute
	}
	var lo, hi time.Time
	switch rapid.IntRange(0, 5).Draw(t, "placement") {
	case 0: // around the reference
		lo = ref.Add(-w / 2)
	case 1: // starting at it
		lo = ref
	case 2: // ending at it
		lo = ref.Add(-w)
	case 3: // ending just before / starting just after it
		lo = ref.Add(-w - 1)
	case 4:
		lo = ref.Add(1)
	default:
		lo = ref.Add(-time.Duration(rapid.Int64Range(0, int64(w)).Draw(t, "offset")))
	}
	hi = lo.Add(w)
	lower := "time " + rapid.SampledFrom([]string{">=", ">"}).Draw(t, "lower_op") + " " + timeLiteral(t, lo)
	upper := "time " + rapid.SampledFrom([]string{"<", "<="}).Draw(t, "upper_op") + " " + timeLiteral(t, hi)
	var atoms []string
	switch k := rapid.IntRange(0, 19).Draw(t, "range_kind"); {
	case k < 13:
		atoms = []string{lower, upper}
		if rapid.IntRange(0, 4).Draw(t, "upper_first") == 0 {
			atoms = []string{upper, lower}
		}
	case k < 15:
		atoms = []string{lower}
	case k < 17:
		atoms = []string{upper}
	case k < 18:
		atoms = []string{"time = " + timeLiteral(t, ref)}
	default:
		// no time condition
	}
	var extra []string
	for i, n := 0, rapid.SampledFrom([]int{0, 0, 1, 1, 2}).Draw(t, "n_extra"); i < n; i++ {
		var a *cnode
		switch rapid.IntRange(0, 5).Draw(t, "extra_kind") {
		case 0, 1:
			a = cc.keyEq(t)
		case 2, 3:
			a = cc.fullKey(t)
		case 4:
			a = cc.otherTag(t)
		default:
			a = cc.fieldAtom(t)
		}
		extra = append(extra, a.render("and"))
	}
	if rapid.Bool().Draw(t, "extra_first") {
		atoms = append(extra, atoms...)
	} else {
		atoms = append(atoms, extra...)
	}
	q := "SELECT * FROM " + dbName + "." + rpName + "." + m.name
	if len(atoms) > 0 {
		q += " WHERE " + strings.Join(atoms, " AND ")
	}
	return q
}
