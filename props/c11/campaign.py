from campaigns_util import B

SPEC = {
    "pkg": "props/c11", "level": "exploration",
    "rule": ("generated cluster (1-2 data nodes, 1-8 partitions), policy (shard-group duration default/1h/90m/1d), measurements with shard key none/one/several tags, "
             "database-level shard key, SHARDS n/AUTO, hash and range sharding (range: load-split of the newest group with bounds taken from stored shard keys), "
             "ALTER ... SHARDKEY between batches; all catalogue changes are the protobuf commands ts-meta applies (meta.Apply*/Data methods). Points are line-protocol text "
             "(tags in generated order, timestamps on and around group boundaries incl. 0 and MaxNanoTime) parsed by the real parser and routed by the real "
             "coordinator.PointsWriter into a recording store: (a) every accepted row is delivered exactly once, to a shard of a live group whose [start,end) contains its time, "
             "the same point (any tag order, any later batch) and the same series within a group always reach the same shard, groups of a hash policy do not overlap. "
             "(b) SELECT text with generated condition trees (shard-key tag =, other tag operators incl. regex, field comparisons, time bounds on AND paths, AND/OR/parentheses) goes through "
             "query.Prepare -> real ClusterShardMapper.MapShards; the consulted shard set must contain the shard of every stored row that definitely satisfies the condition "
             "(own evaluator: absent tag = '', absent field/unknown key/regex on absent tag = false). Ladder: AND-only -> OR over shard-key equalities -> full language -> "
             "+ALTER SHARDKEY -> +regex measurement source -> range sharding -> /*+ full_series */ hint with the complete tag set of a written series (only rows of exactly that series are required). A case is non-trivial when, for route campaigns, >= 2 rows and >= 2 groups exist; for prune campaigns, "
             "some query has >= 1 matching row and either the mapper pruned (strict subset of the shards of the groups in range) or the condition has OR / a non-tag operand with matches in >= 2 shards; "
             "distinct = hash of the whole case. "
             "route_alter_duration: histories with 1-3 ALTER RETENTION POLICY ... SHARD DURATION statements between the batches (initial 1h/90m/2h/4h/6h/1d/default, changed to 1h/90m/2h/4h/6h/1d/7d, "
             "both directions; applied as the UpdateRetentionPolicyCommand the sql node builds, through meta.ApplyUpdateRetentionPolicy), timestamps over the hours of a few adjacent days so that rows fall "
             "into groups created under an old duration and into wider/narrower groups created next to or over them, and queries with a time window of 30 min - 3 h around written timestamps and "
             "expected group boundaries, half-open ranges, time = t and no time condition (optionally AND tag/field atoms); oracles (a) and (b) unchanged. Non-trivial there: >= 1 duration change, live groups "
             "of >= 2 widths and a query with lower and upper bound that has >= 1 matching row"),
    "assumptions": [
        "all partitions are Online (write-available-first routing of writes while a partition is offline is outside the quantifier)",
        "the harness' meta client is the real metaclient.Client reading the shared meta.Data; only its RPC-sending methods (CreateShardGroup, CreateMeasurement, UpdateSchema) are replaced by applying the same command locally",
        "negative timestamps are outside the domain (the line protocol parser rejects them)",
        "after a shard-duration change live groups of a policy overlap on the pinned tree (known finding C16-overlap-after-shard-duration-change of property C16): for histories with such a change the "
        "'no two live groups overlap' check is not applied (counted as class/excluded), and where >= 2 live groups contain a timestamp every containing group is an admissible target: a re-write of the "
        "same point may go to another containing group than before (the writer prefers the previous row's group, else the last containing group in catalogue order; counted as "
        "rewrite-moved-between-overlapping-groups), all other requirements stay (group contains the time, exactly one delivery, a series keeps its shard within a group, strict determinism where one group contains the time)",
        "known-finding classes A, B (higher OR rungs), C (prune_alter), D (prune_regex_source), R (range campaigns), H (hint campaign) are excluded by construction and counted; replays/C11/*.json hold one minimal case each (C11_CHECK_KNOWN=ABCDRH checks them too)",
    ],
    "campaigns": [
        {"name": "route_hash", "run": "^TestRouteHash$", "quick": B(4000, 1), "thorough": B(400000, 2, 7200)},
        {"name": "route_hash_alter", "run": "^TestRouteHashAlter$", "quick": B(2000, 1), "thorough": B(400000, 1, 7200)},
        {"name": "route_range", "run": "^TestRouteRange$", "quick": B(3000, 2), "thorough": B(400000, 2, 7200)},
        {"name": "prune_and", "run": "^TestPruneAnd$", "quick": B(4000, 2), "thorough": B(400000, 2, 7200)},
        {"name": "prune_or_keys", "run": "^TestPruneOrKeys$", "quick": B(4000, 2), "thorough": B(400000, 2, 7200)},
        {"name": "prune_full", "run": "^TestPruneFull$", "quick": B(6000, 2), "thorough": B(400000, 2, 7200)},
        {"name": "prune_alter", "run": "^TestPruneAlter$", "quick": B(3000, 2), "thorough": B(400000, 1, 7200)},
        {"name": "prune_regex_source", "run": "^TestPruneRegexSource$", "quick": B(3000, 1), "thorough": B(400000, 1, 7200)},
        {"name": "prune_range", "run": "^TestPruneRange$", "quick": B(3000, 2), "thorough": B(400000, 2, 7200)},
        {"name": "prune_hint_full_series", "run": "^TestPruneHintFullSeries$", "quick": B(3000, 1), "thorough": B(400000, 1, 7200)},
        {"name": "route_alter_duration", "run": "^TestRouteAlterDuration$", "quick": B(5000, 2), "thorough": B(300000, 2, 7200)},
    ],
}

META = {
    "engine": "lib-rapid",
    "technique": ("property-based testing of the write-side routing and the read-side shard pruning as a relation between two real code paths "
                  "(coordinator.PointsWriter vs query.Prepare -> coordinator.ClusterShardMapper) over generated meta catalogues, with a brute-force evaluator as oracle"),
    "text": ("Every generated point must land in exactly one shard of the group covering its timestamp, deterministically; for every generated query the shards consulted must "
             "include the shard of every stored row that satisfies the condition. Exploration: finds counterexamples, never proves absence."),
    "note": ("Library level: no storage engine, no network; the storage layer is a recorder. Trusts the harness' own condition evaluator (kept conservative: in doubt an atom is false, "
             "which can only hide a violation). Partition/node failures and the specific_series hint are not covered."),
}
