package c11

// Case description (JSON, re-executable by TestReplay), its executor and the oracles of C11.

import (
	"encoding/json"
	"fmt"
	"sort"
	"strings"
	"time"

	"github.com/openGemini/openGemini/lib/util/lifted/influx/influxql"
	meta2 "github.com/openGemini/openGemini/lib/util/lifted/influx/meta"
	"github.com/openGemini/openGemini/lib/util/lifted/vm/protoparser/influx"
)

type op struct {
	Kind  string   `json:"kind"`            // ddl | write | reshard
	Text  string   `json:"text,omitempty"`  // ddl statement
	Lines []string `json:"lines,omitempty"` // line protocol batch
	Picks []int    `json:"picks,omitempty"` // reshard: which of the stored shard keys become bounds
	Desc  bool     `json:"desc,omitempty"`  // write: rows are sent in descending time order (keeps known class R out)
}

type caseDesc struct {
	Kind    string     `json:"kind"` // "c11"
	Cfg     clusterCfg `json:"cfg"`
	Ops     []op       `json:"ops"`
	Queries []string   `json:"queries,omitempty"`
}

func (cd caseDesc) String() string {
	b, _ := json.Marshal(cd)
	return string(b)
}

type fieldVal struct {
	typ int32
	num float64
	str string
}

type storedRow struct {
	mst    string // origin measurement name
	verMst string // name with version, as routed
	tags   map[string]string
	tagSig string
	fields map[string]fieldVal
	ts     int64
	shard  uint64
	id     int64
}

// queryInfo is what a checked query tells the statistics.
type queryInfo struct {
	text         string
	mapperCond   string
	classA       bool // OR with exactly one prunable side (outside parentheses)
	classB       bool // >= 2 tag groups
	classC       bool // groups in range were created under different shard keys of the measurement (ALTER ... SHARDKEY)
	classD       bool // regex source over measurements with different shard key / SHARDS settings
	classH       bool // full_series hint, shard key defined, series carries tags beyond the shard key
	hasOr        bool
	hasField     bool
	hasTime      bool
	hasOtherTag  bool
	hasParen     bool
	matches      int
	matchShards  int
	mappedShards int
	shardsInRng  int // shards of all groups the time range overlaps
	groupsInRng  int
	hint         bool   // full_series hint
	skipped      string // reason the soundness check was not applied
	// time range the mapper was given
	lowerBound, upperBound bool // the range has a lower / an upper bound
	rangeNanos             int64
	widthsInRng            int  // distinct widths (end-start) of the live groups the range overlaps
	crossesBoundary        bool // a start or end of a live group lies strictly inside the range
	overlapInRng           bool // two live groups in range overlap each other
	// a live group G overlapping the range is preceded, in the catalogue's order (sorted by END time), by a live group
	// that starts after the range's max ("window inside a wide group but before a narrow group of the same span")
	beforeEarlierSorted      bool
	beforeEarlierSortedMatch bool // ... and G holds a row that satisfies the query
}

type caseStats struct {
	rowsDelivered int
	rewrites      int // rows delivered a second time (same series+time)
	groups        int
	reshards      int
	reordered     int // post-reshard batches whose generated row order was replaced by descending time order
	alters        int
	queries       []queryInfo
	// shard-group duration changes (ALTER RETENTION POLICY ... SHARD DURATION)
	durChanges      int
	lengthened      int
	shortened       int
	unalignedChange int    // old and new duration are not multiples of each other
	groupIDAtChange uint64 // MaxShardGroupID when the last change was applied
	widths          int    // distinct widths of the live groups at the end
	overlapPairs    int    // pairs of live groups that overlap at the end (only counted, see runCase)
	containedPairs  int    // ... of which one group lies inside the other
	rowsOldWidth    int    // rows delivered, after a change, to a group created before that change with another width
	rowsNewWidth    int    // rows delivered, after a change, to a group created after it
	rowsInTwoGroups int    // rows whose timestamp >= 2 live groups contain
	rewritesInTwo   int    // re-writes of such points
	movedInOverlap  int    // re-writes that went to another one of the containing groups (accepted, see checkedWrite)
	newNextToOld    int    // groups created after a change that touch or overlap a group of another width
}

type violation struct {
	msg string
}

func (v *violation) Error() string { return v.msg }

type harnessError struct{ msg string }

func (h *harnessError) Error() string { return h.msg }

func herr(format string, a ...any) error { return &harnessError{fmt.Sprintf(format, a...)} }
func viol(format string, a ...any) error { return &violation{fmt.Sprintf(format, a...)} }

// skipClasses: known-finding classes whose soundness check is skipped (reported to the caller instead).
type runOpts struct {
	skipA, skipB, skipC, skipD, skipH bool
}

// runCase executes a case. Returns a *violation when the property is broken, a *harnessError when the case is not
// executable (generator/replay problem), nil otherwise.
func runCase(cd caseDesc, o runOpts) (*caseStats, error) {
	st := &caseStats{}
	cl, err := newCluster(cd.Cfg)
	if err != nil {
		return st, herr("cluster: %v", err)
	}
	var stored []storedRow
	seenPoint := map[string]uint64{}  // mst|tags|ts -> shard
	seenSeries := map[string]uint64{} // group|mst|tags -> shard
	for i, p := range cd.Ops {
		switch p.Kind {
		case "ddl":
			var durBefore time.Duration
			if rp, err := cl.data.RetentionPolicy(dbName, rpName); err == nil {
				durBefore = rp.ShardGroupDuration
			}
			if err := cl.ddl(p.Text); err != nil {
				return st, herr("op %d ddl %q: %v", i, p.Text, err)
			}
			up := strings.ToUpper(strings.TrimSpace(p.Text))
			if strings.HasPrefix(up, "ALTER RETENTION POLICY") {
				after, err := cl.data.RetentionPolicy(dbName, rpName)
				if err != nil {
					return st, herr("rp: %v", err)
				}
				if d := after.ShardGroupDuration; d != durBefore {
					st.durChanges++
					if d > durBefore {
						st.lengthened++
					} else {
						st.shortened++
					}
					if d%durBefore != 0 && durBefore%d != 0 {
						st.unalignedChange++
					}
					st.groupIDAtChange = cl.data.MaxShardGroupID
				}
			} else if strings.HasPrefix(up, "ALTER") {
				st.alters++
			}
		case "write":
			lines := p.Lines
			if p.Desc {
				sorted := descendingByTime(lines)
				for k := range sorted {
					if sorted[k] != lines[k] {
						st.reordered++
						break
					}
				}
				lines = sorted
			}
			rows, err := cl.checkedWrite(i, lines, seenPoint, seenSeries, st)
			if err != nil {
				return st, err
			}
			stored = append(stored, rows...)
		case "reshard":
			done, err := cl.reshard(stored, p.Picks)
			if err != nil {
				return st, herr("op %d reshard: %v", i, err)
			}
			if done {
				st.reshards++
			}
		default:
			return st, herr("unknown op kind %q", p.Kind)
		}
	}
	rpi, err := cl.data.RetentionPolicy(dbName, rpName)
	if err != nil {
		return st, herr("rp: %v", err)
	}
	st.groups = len(rpi.ShardGroups)
	widths := map[time.Duration]bool{}
	for i := range rpi.ShardGroups {
		if g := &rpi.ShardGroups[i]; !g.Deleted() {
			widths[g.EndTime.Sub(g.StartTime)] = true
		}
	}
	st.widths = len(widths)
	if st.reshards == 0 {
		// without resharding the groups of a policy partition time: no two live groups overlap.
		// After a change of the policy's shard-group duration live groups DO overlap on the pinned tree: that is the known
		// finding C16-overlap-after-shard-duration-change of property C16 - for such histories the pairs are only counted.
		for i := range rpi.ShardGroups {
			for j := i + 1; j < len(rpi.ShardGroups); j++ {
				a, b := &rpi.ShardGroups[i], &rpi.ShardGroups[j]
				if a.Deleted() || b.Deleted() || a.EngineType != b.EngineType {
					continue
				}
				if a.StartTime.Before(b.EndTime) && b.StartTime.Before(a.EndTime) {
					if st.durChanges > 0 {
						st.overlapPairs++
						if (!a.StartTime.After(b.StartTime) && !a.EndTime.Before(b.EndTime)) || (!b.StartTime.After(a.StartTime) && !b.EndTime.Before(a.EndTime)) {
							st.containedPairs++
						}
						continue
					}
					return st, viol("shard groups %d [%s,%s) and %d [%s,%s) overlap", a.ID, a.StartTime, a.EndTime, b.ID, b.StartTime, b.EndTime)
				}
			}
		}
	}
	if st.durChanges > 0 {
		for i := range rpi.ShardGroups {
			a := &rpi.ShardGroups[i]
			if a.Deleted() || a.ID <= st.groupIDAtChange {
				continue
			}
			for j := range rpi.ShardGroups {
				b := &rpi.ShardGroups[j]
				if i == j || b.Deleted() || b.EndTime.Sub(b.StartTime) == a.EndTime.Sub(a.StartTime) {
					continue
				}
				if !a.StartTime.After(b.EndTime) && !b.StartTime.After(a.EndTime) {
					st.newNextToOld++
					break
				}
			}
		}
	}
	for _, q := range cd.Queries {
		qi, err := cl.checkQuery(q, stored, o)
		if qi != nil {
			st.queries = append(st.queries, *qi)
		}
		if err != nil {
			return st, err
		}
	}
	return st, nil
}

func lineID(r *influx.Row) (int64, bool) { return rowID(r) }

func lineTime(l string) int64 {
	i := strings.LastIndexByte(l, ' ')
	var ts int64
	fmt.Sscanf(l[i+1:], "%d", &ts)
	return ts
}

func descendingByTime(lines []string) []string {
	out := append([]string(nil), lines...)
	sort.SliceStable(out, func(i, j int) bool { return lineTime(out[i]) > lineTime(out[j]) })
	return out
}

func tagSignature(tags map[string]string) string {
	keys := make([]string, 0, len(tags))
	for k := range tags {
		keys = append(keys, k)
	}
	sort.Strings(keys)
	var sb strings.Builder
	for _, k := range keys {
		fmt.Fprintf(&sb, "%q=%q,", k, tags[k])
	}
	return sb.String()
}

// checkedWrite routes one batch and checks property (a) on it.
func (cl *cluster) checkedWrite(opIdx int, lines []string, seenPoint, seenSeries map[string]uint64, st *caseStats) ([]storedRow, error) {
	// what the batch contains, by id (ids are unique per line of a batch)
	var prs influx.PointRows
	if err := prs.Unmarshal(strings.Join(lines, "\n"), false); err != nil {
		return nil, herr("op %d: generated batch does not parse: %v", opIdx, err)
	}
	want := map[int64]int64{} // id -> timestamp
	for i := range prs.Rows {
		id, ok := lineID(&prs.Rows[i])
		if !ok {
			return nil, herr("op %d: line without id field", opIdx)
		}
		if _, dup := want[id]; dup {
			return nil, herr("op %d: duplicate id %d in batch", opIdx, id)
		}
		want[id] = prs.Rows[i].Timestamp
	}
	wr := cl.write(lines)
	if wr.err != nil {
		// every generated point is valid (has all shard key tags, in-range time, consistent field types): it must be accepted
		return nil, viol("op %d: write of valid points failed: %v", opIdx, wr.err)
	}
	idx := cl.shardIndex()
	var liveGroups []*meta2.ShardGroupInfo
	var curDur time.Duration
	if rpi, err := cl.data.RetentionPolicy(dbName, rpName); err == nil {
		curDur = rpi.ShardGroupDuration
		for i := range rpi.ShardGroups {
			if !rpi.ShardGroups[i].Deleted() {
				liveGroups = append(liveGroups, &rpi.ShardGroups[i])
			}
		}
	}
	got := map[int64]int{}
	var out []storedRow
	for _, d := range wr.deliveries {
		id, ok := lineID(&d.row)
		if !ok {
			return nil, viol("op %d: delivered row without id field: %v", opIdx, d.row.Tags)
		}
		got[id]++
		ts, known := want[id]
		if !known {
			return nil, viol("op %d: delivered a row (id %d) that was not in the batch", opIdx, id)
		}
		if d.row.Timestamp != ts {
			return nil, viol("op %d: row id %d delivered with timestamp %d, written with %d", opIdx, id, d.row.Timestamp, ts)
		}
		loc, ok := idx[d.shard]
		if !ok {
			return nil, viol("op %d: row id %d delivered to shard %d which is not in the catalogue", opIdx, id, d.shard)
		}
		if loc.deleted {
			return nil, viol("op %d: row id %d delivered to shard %d of deleted group %d", opIdx, id, d.shard, loc.group)
		}
		t := time.Unix(0, ts)
		if t.Before(loc.start) || !t.Before(loc.end) {
			return nil, viol("op %d: row id %d with time %d (%s) delivered to shard %d of group %d spanning [%s, %s)", opIdx, id, ts, t.UTC().Format(time.RFC3339Nano),
				d.shard, loc.group, loc.start.UTC().Format(time.RFC3339Nano), loc.end.UTC().Format(time.RFC3339Nano))
		}
		if len(loc.owners) != 1 || loc.owners[0] != d.pt {
			return nil, viol("op %d: row id %d for shard %d (owners %v) sent to pt %d", opIdx, id, d.shard, loc.owners, d.pt)
		}
		sr := storedRow{mst: influx.GetOriginMstName(d.row.Name), verMst: d.row.Name, tags: map[string]string{}, fields: map[string]fieldVal{}, ts: ts, shard: d.shard, id: id}
		for _, tg := range d.row.Tags {
			sr.tags[tg.Key] = tg.Value
		}
		for _, f := range d.row.Fields {
			sr.fields[f.Key] = fieldVal{typ: f.Type, num: f.NumValue, str: f.StrValue}
		}
		sr.tagSig = tagSignature(sr.tags)
		// how many live groups contain the timestamp (> 1 only after a shard-duration change: known finding
		// C16-overlap-after-shard-duration-change)
		containing := 0
		for _, g := range liveGroups {
			if g.Contains(t) {
				containing++
			}
		}
		if containing >= 2 {
			st.rowsInTwoGroups++
		}
		if st.durChanges > 0 {
			if loc.group > st.groupIDAtChange {
				st.rowsNewWidth++
			} else if loc.end.Sub(loc.start) != curDur {
				st.rowsOldWidth++
			}
		}
		pk := fmt.Sprintf("%s|%s|%d", sr.mst, sr.tagSig, ts)
		if prev, ok := seenPoint[pk]; ok {
			st.rewrites++
			if containing >= 2 {
				st.rewritesInTwo++
			}
			if prev != d.shard && containing >= 2 && st.durChanges > 0 {
				// Several live groups contain the timestamp. The writer takes the group it used for the previous row of
				// the batch if that contains the timestamp, else the last containing group in catalogue order, so a
				// re-write legitimately moves to a group that was created (or became the cached one) in between. The
				// property's "the group containing the timestamp" has no single answer here; every containing group is
				// accepted (checked above) and only the move is counted.
				st.movedInOverlap++
			} else if prev != d.shard {
				return nil, viol("op %d: point %s %s t=%d was stored in shard %d before and is now routed to shard %d", opIdx, sr.mst, sr.tagSig, ts, prev, d.shard)
			}
		}
		seenPoint[pk] = d.shard
		sk := fmt.Sprintf("%d|%s|%s", loc.group, sr.mst, sr.tagSig)
		if prev, ok := seenSeries[sk]; ok && prev != d.shard {
			return nil, viol("op %d: series %s %s is spread over shards %d and %d of the same group %d", opIdx, sr.mst, sr.tagSig, prev, d.shard, loc.group)
		}
		seenSeries[sk] = d.shard
		out = append(out, sr)
	}
	for id := range want {
		if got[id] != 1 {
			return nil, viol("op %d: accepted row id %d was delivered to %d shards (want exactly 1)", opIdx, id, got[id])
		}
	}
	st.rowsDelivered += len(out)
	return out, nil
}

// reshard mimics ts-meta's load-triggered split of the newest group of a range-sharded policy: split time = newest data
// time in that group, bounds = shard keys that exist in it (Store.reSharding / getSplitVectorByRowCount).
func (cl *cluster) reshard(stored []storedRow, picks []int) (bool, error) {
	sg := cl.data.NewestShardGroup(dbName, rpName)
	if sg == nil {
		return false, nil
	}
	ptNum := len(cl.data.DBPtView(dbName))
	inGroup := map[uint64]bool{}
	for i := range sg.Shards {
		inGroup[sg.Shards[i].ID] = true
	}
	var maxT int64
	keys := map[string]bool{}
	any := false
	for i := range stored {
		r := &stored[i]
		if !inGroup[r.shard] {
			continue
		}
		if !any || r.ts > maxT {
			maxT = r.ts
		}
		any = true
		keys[cl.rangeShardKey(r, sg.ID)] = true
	}
	if !any || ptNum < 2 {
		return false, nil
	}
	if !time.Unix(0, maxT+1).Before(sg.EndTime) {
		return false, nil
	}
	all := make([]string, 0, len(keys))
	for k := range keys {
		all = append(all, k)
	}
	sort.Strings(all)
	chosen := map[string]bool{}
	for _, p := range picks {
		if len(chosen) >= ptNum-1 {
			break
		}
		chosen[all[((p%len(all))+len(all))%len(all)]] = true
	}
	if len(chosen) == 0 {
		return false, nil
	}
	bounds := make([]string, 0, len(chosen))
	for k := range chosen {
		bounds = append(bounds, k)
	}
	sort.Strings(bounds)
	return true, cl.applyReSharding(sg.ID, maxT, bounds)
}

// rangeShardKey is the key string the storage layer's shard-key index holds for a row (measurement with version, then
// the shard key tags in key order) - used only to pick realistic split points.
func (cl *cluster) rangeShardKey(r *storedRow, groupID uint64) string {
	var keys []string
	if dbi := cl.data.Database(dbName); dbi != nil && len(dbi.ShardKey.ShardKey) > 0 {
		keys = dbi.ShardKey.ShardKey
	} else if m, err := cl.data.Measurement(dbName, rpName, r.mst); err == nil {
		if ski := m.GetShardKey(groupID); ski != nil {
			keys = ski.ShardKey
		}
	}
	var sb strings.Builder
	sb.WriteString(r.verMst)
	if len(keys) == 0 {
		ks := make([]string, 0, len(r.tags))
		for k := range r.tags {
			ks = append(ks, k)
		}
		sort.Strings(ks)
		keys = ks
	}
	for _, k := range keys {
		sb.WriteString("," + k + "=" + r.tags[k])
	}
	return sb.String()
}

// ---------------------------------------------------------------- pruning soundness

func (cl *cluster) checkQuery(text string, stored []storedRow, o runOpts) (*queryInfo, error) {
	qi := &queryInfo{text: text}
	st, err := parseStatement(text)
	if err != nil {
		return nil, herr("query %q does not parse: %v", text, err)
	}
	sel, ok := st.(*influxql.SelectStatement)
	if !ok || len(sel.Sources) != 1 {
		return nil, herr("query %q: want a select from one source", text)
	}
	src, ok := sel.Sources[0].(*influxql.Measurement)
	if !ok {
		return nil, herr("query %q: source is not a measurement", text)
	}
	orig := influxql.CloneExpr(sel.Condition)
	shapeOf(orig, qi, true)
	// /*+ full_series */: the condition names one series by its complete tag set; only rows of exactly that series are asked for
	var exact map[string]string
	for _, h := range sel.Hints {
		if h.String() == influxql.FullSeriesQuery {
			exact = map[string]string{}
			if !collectEqualities(orig, exact) {
				return nil, herr("query %q: full_series hint with a condition that is not an AND of tag equalities", text)
			}
			qi.hint = true
		}
	}

	mr, err := cl.mapQuery(text)
	if err != nil {
		return qi, herr("query %q: %v", text, err)
	}
	qi.mapperCond = mr.cond

	// measurements the source names
	var msts []string
	rpi, err := cl.data.RetentionPolicy(dbName, rpName)
	if err != nil {
		return qi, herr("rp: %v", err)
	}
	if src.Regex != nil {
		rpi.EachMeasurements(func(m *meta2.MeasurementInfo) {
			if src.Regex.Val.MatchString(influx.GetOriginMstName(m.Name)) {
				msts = append(msts, influx.GetOriginMstName(m.Name))
			}
		})
		sort.Strings(msts)
	} else {
		msts = []string{src.Name}
	}

	// classification of the condition the mapper saw (against the schema the mapper uses: first measurement)
	if len(msts) > 0 {
		if m0, err := cl.data.Measurement(dbName, rpName, msts[0]); err == nil {
			g, a := tagGroups(mr.condExpr, m0)
			qi.classA = a
			qi.classB = g >= 2
		}
	}
	// statistics: shards of the groups in range; shard key versions in force in those groups
	dbLevel := false
	if dbi := cl.data.Database(dbName); dbi != nil && len(dbi.ShardKey.ShardKey) > 0 {
		dbLevel = true
	}
	versions := map[*meta2.ShardKeyInfo]bool{}
	qi.lowerBound = mr.tmin > influxql.MinTime
	qi.upperBound = mr.tmax < influxql.MaxTime
	if qi.lowerBound && qi.upperBound {
		qi.rangeNanos = mr.tmax - mr.tmin
	}
	qmin, qmax := time.Unix(0, mr.tmin), time.Unix(0, mr.tmax)
	widthsInRng := map[time.Duration]bool{}
	shadowed := map[uint64]bool{} // groups in range that follow, in catalogue order, a live group starting after the range
	var inRng []*meta2.ShardGroupInfo
	laterStartSeen := false
	for i := range rpi.ShardGroups {
		g := &rpi.ShardGroups[i]
		if g.Deleted() {
			continue
		}
		if g.Overlaps(qmin, qmax) {
			if laterStartSeen {
				qi.beforeEarlierSorted = true
				shadowed[g.ID] = true
			}
			widthsInRng[g.EndTime.Sub(g.StartTime)] = true
			if (g.StartTime.After(qmin) && !g.StartTime.After(qmax)) || (g.EndTime.After(qmin) && !g.EndTime.After(qmax)) {
				qi.crossesBoundary = true
			}
			for _, h := range inRng {
				if h.StartTime.Before(g.EndTime) && g.StartTime.Before(h.EndTime) {
					qi.overlapInRng = true
				}
			}
			inRng = append(inRng, g)
		}
		if g.StartTime.After(qmax) {
			laterStartSeen = true
		}
	}
	qi.widthsInRng = len(widthsInRng)
	for i := range rpi.ShardGroups {
		g := &rpi.ShardGroups[i]
		if g.Deleted() || !g.Overlaps(time.Unix(0, mr.tmin), time.Unix(0, mr.tmax)) {
			continue
		}
		qi.groupsInRng++
		qi.shardsInRng += len(g.Shards)
		if !dbLevel {
			for _, m := range msts {
				if mi, err := cl.data.Measurement(dbName, rpName, m); err == nil {
					versions[mi.GetShardKey(g.ID)] = true
				}
			}
		}
	}
	qi.classC = len(versions) > len(msts)
	if len(msts) > 1 {
		var first *meta2.MeasurementInfo
		for _, m := range msts {
			mi, err := cl.data.Measurement(dbName, rpName, m)
			if err != nil {
				continue
			}
			if mi.InitNumOfShards != 0 {
				qi.classD = true
			}
			if first == nil {
				first = mi
				continue
			}
			if !dbLevel && (len(mi.ShardKeys) != len(first.ShardKeys) || !mi.ShardKeys[len(mi.ShardKeys)-1].EqualsToAnother(&first.ShardKeys[len(first.ShardKeys)-1])) {
				qi.classD = true
			}
		}
	}
	mappedAll := map[uint64]bool{}
	for _, set := range mr.shards {
		for id := range set {
			mappedAll[id] = true
		}
	}
	qi.mappedShards = len(mappedAll)

	if exact != nil {
		var key []string
		if dbi := cl.data.Database(dbName); dbi != nil && len(dbi.ShardKey.ShardKey) > 0 {
			key = dbi.ShardKey.ShardKey
		} else if len(msts) > 0 {
			if mi, err := cl.data.Measurement(dbName, rpName, msts[0]); err == nil {
				for i := range mi.ShardKeys {
					if len(mi.ShardKeys[i].ShardKey) > 0 {
						key = mi.ShardKeys[i].ShardKey
					}
				}
			}
		}
		if len(key) > 0 {
			same := len(key) == len(exact)
			for _, k := range key {
				if _, ok := exact[k]; !ok {
					same = false
				}
			}
			qi.classH = !same
		}
	}
	if (qi.classA && o.skipA) || (qi.classB && o.skipB) || (qi.classC && o.skipC) || (qi.classD && o.skipD) || (qi.classH && o.skipH) {
		qi.skipped = "known-class"
		return qi, nil
	}

	matchShards := map[uint64]bool{}
	shardGroupOf := map[uint64]uint64{}
	if len(shadowed) > 0 {
		for id, loc := range cl.shardIndex() {
			shardGroupOf[id] = loc.group
		}
	}
	for _, m := range msts {
		mi, err := cl.data.Measurement(dbName, rpName, m)
		if err != nil {
			continue
		}
		for i := range stored {
			r := &stored[i]
			if r.mst != m {
				continue
			}
			ok, err := evalCond(orig, r, mi)
			if err != nil {
				return qi, herr("query %q: evaluator: %v", text, err)
			}
			if ok && exact != nil {
				ok = len(exact) == len(r.tags)
				for k, v := range exact {
					if rv, has := r.tags[k]; !has || rv != v {
						ok = false
					}
				}
			}
			if !ok {
				continue
			}
			qi.matches++
			matchShards[r.shard] = true
			if len(shadowed) > 0 && shadowed[shardGroupOf[r.shard]] {
				qi.beforeEarlierSortedMatch = true
			}
			if !mr.shards[m][r.shard] {
				return qi, viol("query %q (condition given to the shard mapper: %q, time range [%d, %d]) consults shards %v of measurement %s, but row id %d {%s t=%d} which satisfies the condition is stored in shard %d",
					text, mr.cond, mr.tmin, mr.tmax, sortedIDs(mr.shards[m]), m, r.id, r.tagSig, r.ts, r.shard)
			}
		}
	}
	qi.matchShards = len(matchShards)
	return qi, nil
}

// shapeOf records which operand kinds the written condition contains.
func shapeOf(e influxql.Expr, qi *queryInfo, top bool) {
	switch x := e.(type) {
	case *influxql.ParenExpr:
		if !top {
			qi.hasParen = true
		}
		shapeOf(x.Expr, qi, false)
	case *influxql.BinaryExpr:
		switch x.Op {
		case influxql.AND:
			shapeOf(x.LHS, qi, false)
			shapeOf(x.RHS, qi, false)
		case influxql.OR:
			qi.hasOr = true
			shapeOf(x.LHS, qi, false)
			shapeOf(x.RHS, qi, false)
		default:
			ref, _ := x.LHS.(*influxql.VarRef)
			switch {
			case ref != nil && strings.EqualFold(ref.Val, "time"):
				qi.hasTime = true
			case ref != nil && fieldTypes[ref.Val] != 0:
				qi.hasField = true
			default:
				if _, isStr := x.RHS.(*influxql.StringLiteral); !isStr || x.Op != influxql.EQ {
					qi.hasOtherTag = true
				}
			}
		}
	}
}

// tagGroups mirrors the STRUCTURE of meta.getConditionTags only to name the two known-finding classes: it returns how
// many tag groups the mapper derives from the condition and whether some OR (outside parentheses) has exactly one side
// that yields groups (class A: the other side is unconstrained, yet the result is pruned by the first side).
func tagGroups(e influxql.Expr, m *meta2.MeasurementInfo) (int, bool) {
	be, ok := e.(*influxql.BinaryExpr)
	if !ok {
		return 0, false
	}
	switch be.Op {
	case influxql.AND:
		l, la := tagGroups(be.LHS, m)
		r, ra := tagGroups(be.RHS, m)
		if l == 0 {
			return r, la || ra
		}
		return l, la || ra
	case influxql.OR:
		l, la := tagGroups(be.LHS, m)
		r, ra := tagGroups(be.RHS, m)
		a := la || ra || (l == 0) != (r == 0)
		if l == 0 {
			return r, a
		}
		if r == 0 {
			return l, a
		}
		return l + r, a
	case influxql.EQ:
		ref, ok := be.LHS.(*influxql.VarRef)
		if !ok || strings.EqualFold(ref.Val, "time") {
			return 0, false
		}
		if _, ok := be.RHS.(*influxql.StringLiteral); !ok {
			return 0, false
		}
		if isSchemaTag(m, ref.Val) {
			return 1, false
		}
	}
	return 0, false
}

func isSchemaTag(m *meta2.MeasurementInfo, key string) bool {
	m.SchemaLock.RLock()
	defer m.SchemaLock.RUnlock()
	if m.Schema == nil {
		return false
	}
	v, ok := m.Schema.GetTyp(key)
	return ok && v == influx.Field_Type_Tag
}

// evalCond: does the stored row DEFINITELY satisfy the written condition under InfluxQL semantics (a tag the row does
// not carry compares as ”; a comparison on a field the row does not carry, on a key unknown to the schema, or a regex
// on an absent tag counts as false - the tree has no negation above atoms, so this can only shrink the match set).
func evalCond(e influxql.Expr, r *storedRow, m *meta2.MeasurementInfo) (bool, error) {
	if e == nil {
		return true, nil
	}
	switch x := e.(type) {
	case *influxql.ParenExpr:
		return evalCond(x.Expr, r, m)
	case *influxql.BinaryExpr:
		switch x.Op {
		case influxql.AND, influxql.OR:
			l, err := evalCond(x.LHS, r, m)
			if err != nil {
				return false, err
			}
			rr, err := evalCond(x.RHS, r, m)
			if err != nil {
				return false, err
			}
			if x.Op == influxql.AND {
				return l && rr, nil
			}
			return l || rr, nil
		}
		ref, ok := x.LHS.(*influxql.VarRef)
		if !ok {
			return false, fmt.Errorf("left operand %T not supported by the evaluator", x.LHS)
		}
		if strings.EqualFold(ref.Val, "time") {
			var lit int64
			switch v := x.RHS.(type) {
			case *influxql.IntegerLiteral:
				lit = v.Val
			case *influxql.StringLiteral:
				t, err := time.Parse(time.RFC3339Nano, v.Val)
				if err != nil {
					return false, fmt.Errorf("time literal %q", v.Val)
				}
				lit = t.UnixNano()
			default:
				return false, fmt.Errorf("time operand %T", x.RHS)
			}
			return cmpOrdered(x.Op, float64AsCmp(r.ts, lit))
		}
		if ft, isField := fieldTypes[ref.Val]; isField {
			fv, has := r.fields[ref.Val]
			if !has {
				return false, nil
			}
			switch ft {
			case influx.Field_Type_Int, influx.Field_Type_Float:
				var lit float64
				switch v := x.RHS.(type) {
				case *influxql.IntegerLiteral:
					lit = float64(v.Val)
				case *influxql.NumberLiteral:
					lit = v.Val
				default:
					return false, fmt.Errorf("numeric field compared with %T", x.RHS)
				}
				c := 0
				if fv.num < lit {
					c = -1
				} else if fv.num > lit {
					c = 1
				}
				return cmpOrdered(x.Op, c)
			case influx.Field_Type_String:
				v, ok := x.RHS.(*influxql.StringLiteral)
				if !ok {
					return false, fmt.Errorf("string field compared with %T", x.RHS)
				}
				switch x.Op {
				case influxql.EQ:
					return fv.str == v.Val, nil
				case influxql.NEQ:
					return fv.str != v.Val, nil
				}
				return false, fmt.Errorf("string field operator %s", x.Op)
			case influx.Field_Type_Boolean:
				v, ok := x.RHS.(*influxql.BooleanLiteral)
				if !ok {
					return false, fmt.Errorf("bool field compared with %T", x.RHS)
				}
				b := fv.num != 0
				switch x.Op {
				case influxql.EQ:
					return b == v.Val, nil
				case influxql.NEQ:
					return b != v.Val, nil
				}
				return false, fmt.Errorf("bool field operator %s", x.Op)
			}
			return false, fmt.Errorf("field type %d", ft)
		}
		// tag (or unknown key)
		if !isSchemaTag(m, ref.Val) {
			return false, nil
		}
		val, has := r.tags[ref.Val]
		switch v := x.RHS.(type) {
		case *influxql.StringLiteral:
			switch x.Op {
			case influxql.EQ:
				return val == v.Val, nil
			case influxql.NEQ:
				return val != v.Val, nil
			}
			return false, fmt.Errorf("tag operator %s with string", x.Op)
		case *influxql.RegexLiteral:
			if !has {
				return false, nil
			}
			switch x.Op {
			case influxql.EQREGEX:
				return v.Val.MatchString(val), nil
			case influxql.NEQREGEX:
				return !v.Val.MatchString(val), nil
			}
			return false, fmt.Errorf("tag operator %s with regex", x.Op)
		}
		return false, fmt.Errorf("tag compared with %T", x.RHS)
	}
	return false, fmt.Errorf("expression %T not supported by the evaluator", e)
}

func float64AsCmp(a, b int64) int {
	if a < b {
		return -1
	}
	if a > b {
		return 1
	}
	return 0
}

func cmpOrdered(op influxql.Token, c int) (bool, error) {
	switch op {
	case influxql.EQ:
		return c == 0, nil
	case influxql.NEQ:
		return c != 0, nil
	case influxql.LT:
		return c < 0, nil
	case influxql.LTE:
		return c <= 0, nil
	case influxql.GT:
		return c > 0, nil
	case influxql.GTE:
		return c >= 0, nil
	}
	return false, fmt.Errorf("operator %s", op)
}

// collectEqualities: condition is an AND (parentheses allowed) of tag = 'value' atoms.
func collectEqualities(e influxql.Expr, into map[string]string) bool {
	switch x := e.(type) {
	case *influxql.ParenExpr:
		return collectEqualities(x.Expr, into)
	case *influxql.BinaryExpr:
		switch x.Op {
		case influxql.AND:
			return collectEqualities(x.LHS, into) && collectEqualities(x.RHS, into)
		case influxql.EQ:
			ref, ok := x.LHS.(*influxql.VarRef)
			lit, ok2 := x.RHS.(*influxql.StringLiteral)
			if !ok || !ok2 {
				return false
			}
			into[ref.Val] = lit.Val
			return true
		}
	}
	return false
}
