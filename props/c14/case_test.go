package c14

// Case description (JSON, re-executable), executor and oracle of C14 (library level).
//
// Time: the code under test reads time.Now() itself. A case therefore describes everything RELATIVE to the wall clock
// of the run: T0 = now truncated to a second; shard groups are the aligned groups k shard-group-durations back from the
// group containing T0 (k < 0: future groups); a policy duration is either INF (0) or "group K expires delta before/after
// T0": D = (T0 - end(K)) - delta with 2 min <= |delta| <= S/2. Every other group then differs from the expiry instant by
// at least S/2 >= 30 min, so no verdict depends on how long the run takes (a stall of more than 2 minutes between T0
// and the code's own clock reading is reported as inconclusive, never as a violation).

import (
	"encoding/json"
	"fmt"
	"sort"
	"time"

	"github.com/openGemini/openGemini/lib/config"
	meta2 "github.com/openGemini/openGemini/lib/util/lifted/influx/meta"
)

const margin = 2 * time.Minute

type durSpec struct {
	Inf    bool  `json:"inf,omitempty"`
	K      int   `json:"k,omitempty"`       // reference group (k groups back from the current one)
	DeltaS int64 `json:"delta_s,omitempty"` // seconds: > 0 group K expired delta ago, < 0 expires in |delta|
}

type step struct {
	Op   string   `json:"op"`             // tick | alter | create | probe
	Node int      `json:"node,omitempty"` // tick: node slot
	Dur  *durSpec `json:"dur,omitempty"`  // alter
	K    int      `json:"k,omitempty"`    // create: group index
}

type caseDesc struct {
	Kind      string  `json:"kind"` // "service" (local storage path) | "logkeeper" (meta client's expired-group query)
	Nodes     int     `json:"nodes"`
	PtPerNode int     `json:"pt_per_node"`
	SgDurS    int64   `json:"shard_group_duration_s"`
	Dur       durSpec `json:"dur"`
	Groups    []int   `json:"groups"` // group indexes created before the first step
	Steps     []step  `json:"steps"`
}

func (cd caseDesc) String() string { b, _ := json.Marshal(cd); return string(b) }

type violation struct{ msg string }

func (v *violation) Error() string { return v.msg }

type harnessError struct{ msg string }

func (h *harnessError) Error() string { return h.msg }

func herr(f string, a ...any) error { return &harnessError{fmt.Sprintf(f, a...)} }
func viol(f string, a ...any) error { return &violation{fmt.Sprintf(f, a...)} }

type mgroup struct {
	k       int
	id      uint64
	end     time.Time
	shards  map[uint64]int // shard id -> node slot owning it
	doomed  bool           // some owner's round ran while the group was expired (deletion has begun)
	ticked  map[int]bool   // node slots whose round ran while the group was expired
	removed bool
}

type caseStats struct {
	ticks, alters, flips, expiredSeen, keptSeen, removedGroups int
	lengthenKept, shortenExpired, infSeen, partial             int
	probes                                                     int
}

type runner struct {
	cd     caseDesc
	w      *world
	t0     time.Time
	s      time.Duration
	base   time.Time // start of the group containing T0
	dur    time.Duration
	groups map[int]*mgroup
	st     *caseStats
}

func (r *runner) groupStart(k int) time.Time { return r.base.Add(-time.Duration(k) * r.s) }

func (r *runner) resolve(d durSpec) (time.Duration, error) {
	if d.Inf {
		return 0, nil
	}
	delta := time.Duration(d.DeltaS) * time.Second
	if delta < margin && delta > -margin {
		return 0, herr("delta %s inside the margin", delta)
	}
	if delta > r.s/2 || delta < -r.s/2 {
		return 0, herr("delta %s larger than half a group", delta)
	}
	end := r.groupStart(d.K).Add(r.s)
	dd := r.t0.Sub(end) - delta
	if dd < time.Hour || dd < r.s {
		return 0, herr("duration %s too short for the policy (k=%d)", dd, d.K)
	}
	return dd, nil
}

// expired: the statement's arithmetic. ok=false when the verdict is within the margin (cannot happen by construction).
func (r *runner) expired(g *mgroup) (exp bool, ok bool) {
	if r.dur == 0 {
		return false, true
	}
	d := r.t0.Sub(g.end.Add(r.dur)) // > 0: ended more than duration ago
	if d >= margin {
		return true, true
	}
	if d <= -margin {
		return false, true
	}
	return false, false
}

func (r *runner) create(k int) error {
	if g, ok := r.groups[k]; ok && !g.removed {
		return nil
	}
	ts := r.groupStart(k).Add(r.s / 3)
	id, err := r.w.createGroup(ts)
	if err != nil {
		return herr("create group k=%d: %v", k, err)
	}
	rpi, _ := r.w.data.RetentionPolicy(dbName, rpName)
	var sg *meta2.ShardGroupInfo
	for i := range rpi.ShardGroups {
		if rpi.ShardGroups[i].ID == id {
			sg = &rpi.ShardGroups[i]
		}
	}
	if sg == nil {
		return herr("group %d not in the catalogue after creation", id)
	}
	if !sg.StartTime.Equal(r.groupStart(k)) || !sg.EndTime.Equal(r.groupStart(k).Add(r.s)) {
		return herr("group k=%d spans [%s,%s), expected start %s", k, sg.StartTime, sg.EndTime, r.groupStart(k))
	}
	g := &mgroup{k: k, id: id, end: sg.EndTime, shards: map[uint64]int{}, ticked: map[int]bool{}}
	view := r.w.data.DBPtView(dbName)
	for _, sh := range sg.Shards {
		owner := view[sh.Owners[0]].Owner.NodeID
		for slot, n := range r.w.nodes {
			if n == owner {
				g.shards[sh.ID] = slot
			}
		}
	}
	r.groups[k] = g
	return nil
}

func runCase(cd caseDesc) (*caseStats, error) {
	st := &caseStats{}
	s := time.Duration(cd.SgDurS) * time.Second
	if s < time.Hour {
		return st, herr("shard group duration %s", s)
	}
	r := &runner{cd: cd, s: s, groups: map[int]*mgroup{}, st: st}
	r.t0 = time.Now().UTC().Truncate(time.Second)
	r.base = r.t0.Truncate(s)
	d0, err := r.resolve(cd.Dur)
	if err != nil {
		return st, err
	}
	r.dur = d0
	w, err := newWorld(cd.Nodes, cd.PtPerNode, s, d0, cd.Kind == "logkeeper")
	if err != nil {
		return st, herr("world: %v", err)
	}
	r.w = w
	for _, k := range cd.Groups {
		if err := r.create(k); err != nil {
			return st, err
		}
	}
	for i, sp := range cd.Steps {
		switch sp.Op {
		case "create":
			if err := r.create(sp.K); err != nil {
				return st, err
			}
		case "alter":
			nd, err := r.resolve(*sp.Dur)
			if err != nil {
				return st, err
			}
			before := map[int]bool{}
			for k, g := range r.groups {
				if !g.removed {
					e, _ := r.expired(g)
					before[k] = e
				}
			}
			old := r.dur
			if err := r.w.alterDuration(nd); err != nil {
				return st, viol("step %d: ALTER ... DURATION %s (valid: >= 1h and >= shard group duration, or INF) was rejected: %v", i, nd, err)
			}
			rpi, _ := r.w.data.RetentionPolicy(dbName, rpName)
			if rpi.Duration != nd {
				return st, viol("step %d: after ALTER ... DURATION %s the policy has duration %s", i, nd, rpi.Duration)
			}
			r.dur = nd
			st.alters++
			for k, g := range r.groups {
				if g.removed {
					continue
				}
				e, _ := r.expired(g)
				if e != before[k] {
					st.flips++
					if !e && !g.doomed {
						st.lengthenKept++
					}
					if e {
						st.shortenExpired++
					}
				}
			}
			if nd == 0 && old != 0 {
				st.infSeen++
			}
		case "tick":
			if cd.Kind == "logkeeper" {
				if err := r.logkeeperRound(i); err != nil {
					return st, err
				}
			} else if err := r.serviceRound(i, sp.Node); err != nil {
				return st, err
			}
		default:
			return st, herr("unknown step %q", sp.Op)
		}
		if time.Since(r.t0) > margin/2 {
			return st, herr("the run took %s since T0: verdicts no longer safe", time.Since(r.t0))
		}
	}
	return st, nil
}

func (r *runner) catalogue() map[uint64]*meta2.ShardGroupInfo {
	out := map[uint64]*meta2.ShardGroupInfo{}
	rpi, err := r.w.data.RetentionPolicy(dbName, rpName)
	if err != nil {
		return out
	}
	for i := range rpi.ShardGroups {
		out[rpi.ShardGroups[i].ID] = &rpi.ShardGroups[i]
	}
	return out
}

func (r *runner) byShard() map[uint64]*mgroup {
	out := map[uint64]*mgroup{}
	for _, g := range r.groups {
		for sid := range g.shards {
			out[sid] = g
		}
	}
	return out
}

func (r *runner) sortedGroups() []*mgroup {
	var gs []*mgroup
	for _, g := range r.groups {
		gs = append(gs, g)
	}
	sort.Slice(gs, func(i, j int) bool { return gs[i].k < gs[j].k })
	return gs
}

// serviceRound: one round of the real retention service of a node, then the oracle.
func (r *runner) serviceRound(stepIdx, slot int) error {
	if slot < 0 || slot >= len(r.w.nodes) {
		return herr("node slot %d", slot)
	}
	res, err := r.w.tick(slot)
	if err != nil {
		return herr("step %d: tick: %v", stepIdx, err)
	}
	r.st.ticks++
	byShard := r.byShard()
	byID := map[uint64]*mgroup{}
	for _, g := range r.groups {
		byID[g.id] = g
	}
	desc := func(g *mgroup) string {
		return fmt.Sprintf("group %d (k=%d, end %s = T0%+v, policy duration %s, end+duration = T0%+v)", g.id, g.k, g.end.Format(time.RFC3339), g.end.Sub(r.t0), r.dur, g.end.Add(r.dur).Sub(r.t0))
	}
	// soundness: whatever the round deleted / marked / pruned belongs to a group whose span ended more than the CURRENT duration ago
	for _, sid := range res.deleted {
		g := byShard[sid]
		if g == nil {
			return viol("step %d: the service deleted shard %d which no group of the policy owns", stepIdx, sid)
		}
		if exp, ok := r.expired(g); ok && !exp {
			return viol("step %d: the service deleted shard %d of %s which has not expired", stepIdx, sid, desc(g))
		}
		if g.shards[sid] != slot {
			return viol("step %d: node slot %d deleted shard %d owned by slot %d", stepIdx, slot, sid, g.shards[sid])
		}
	}
	for _, gid := range res.marks {
		g := byID[gid]
		if g == nil {
			return viol("step %d: the service marked unknown group %d as deleted", stepIdx, gid)
		}
		if exp, ok := r.expired(g); ok && !exp {
			return viol("step %d: the service marked %s as deleted although it has not expired", stepIdx, desc(g))
		}
	}
	for _, sid := range res.prunes {
		g := byShard[sid]
		if g == nil {
			return viol("step %d: the service pruned shard %d which no group owns", stepIdx, sid)
		}
		if exp, ok := r.expired(g); ok && !exp {
			return viol("step %d: the service pruned shard %d of %s which has not expired", stepIdx, sid, desc(g))
		}
	}
	// model update
	for _, g := range r.sortedGroups() {
		if g.removed {
			continue
		}
		exp, ok := r.expired(g)
		if !ok {
			return herr("verdict for %s inside the margin", desc(g))
		}
		if exp {
			owns := false
			for _, s := range g.shards {
				if s == slot {
					owns = true
				}
			}
			if owns {
				g.doomed = true
				g.ticked[slot] = true
				r.st.expiredSeen++
				// completeness for this node: each of its shards of the expired group was handed to DeleteShard
				for sid, s := range g.shards {
					if s != slot {
						continue
					}
					found := false
					for _, d := range res.deleted {
						if d == sid {
							found = true
						}
					}
					if !found {
						return viol("step %d: shard %d of expired %s was not deleted by the round of its owner (slot %d)", stepIdx, sid, desc(g), slot)
					}
				}
			}
		}
	}
	// catalogue after the round
	cat := r.catalogue()
	for _, g := range r.sortedGroups() {
		if g.removed {
			continue
		}
		sg := cat[g.id]
		exp, _ := r.expired(g)
		if !g.doomed {
			// deletion never began: the group must be untouched (this is also "lengthening before deletion keeps it" and "INF never expires")
			if sg == nil {
				return viol("step %d: %s, for which no deletion was due, disappeared from the catalogue", stepIdx, desc(g))
			}
			if sg.Deleted() {
				return viol("step %d: %s, for which no deletion was due, is marked deleted", stepIdx, desc(g))
			}
			for _, sh := range sg.Shards {
				if sh.MarkDelete {
					return viol("step %d: shard %d of %s, for which no deletion was due, is marked deleted", stepIdx, sh.ID, desc(g))
				}
			}
			if !exp {
				r.st.keptSeen++
			}
			continue
		}
		allTicked := true
		for _, s := range g.shards {
			if !g.ticked[s] {
				allTicked = false
			}
		}
		if allTicked {
			if sg != nil {
				return viol("step %d: every owner of expired %s has run its retention round (mark + delete + prune), yet the group is still in the catalogue (deletedAt=%v, shards=%+v)", stepIdx, desc(g), sg.DeletedAt, sg.Shards)
			}
			g.removed = true
			r.st.removedGroups++
		} else {
			r.st.partial++
		}
	}
	return nil
}

// logkeeperRound: the shared-storage path asks the meta client which groups to mark (GetExpiredShards) and marks them.
func (r *runner) logkeeperRound(stepIdx int) error {
	sm := newSvcMeta(r.w, r.w.nodes[0])
	markDel, delayed := sm.GetExpiredShards()
	r.st.probes++
	r.st.ticks++
	want := map[uint64]*mgroup{}
	for _, g := range r.groups {
		if g.removed || g.doomed {
			continue
		}
		exp, ok := r.expired(g)
		if !ok {
			return herr("verdict inside the margin")
		}
		if exp {
			want[g.id] = g
			r.st.expiredSeen++
		} else {
			r.st.keptSeen++
		}
	}
	got := map[uint64]bool{}
	for _, m := range markDel {
		got[m.ShardGroupId] = true
		if want[m.ShardGroupId] == nil {
			return viol("step %d: GetExpiredShards selects group %d for deletion which has not expired under duration %s (or is already marked)", stepIdx, m.ShardGroupId, r.dur)
		}
	}
	for id, g := range want {
		if !got[id] {
			return viol("step %d: GetExpiredShards does not select expired group %d (k=%d, end+duration = T0%+v)", stepIdx, id, g.k, g.end.Add(r.dur).Sub(r.t0))
		}
	}
	for _, d := range delayed {
		// physical deletion is due 24 h after the mark: nothing was marked that long ago in a run
		if len(d.ShardIds) > 0 {
			return viol("step %d: GetExpiredShards reports shards %v of group %d for physical deletion before the 24 h delay", stepIdx, d.ShardIds, d.ShardGroupId)
		}
	}
	now := time.Now().UTC()
	for _, m := range markDel {
		if err := sm.DelayDeleteShardGroup(m.Database, m.Policy, m.ShardGroupId, now, meta2.MarkDelete); err != nil {
			return herr("mark: %v", err)
		}
	}
	cat := r.catalogue()
	for id, g := range want {
		sg := cat[id]
		if sg == nil || !sg.Deleted() {
			return viol("step %d: group %d is not marked deleted after DelayDeleteShardGroup", stepIdx, id)
		}
		g.doomed = true
	}
	for _, g := range r.groups {
		if g.doomed || g.removed {
			continue
		}
		if sg := cat[g.id]; sg == nil || sg.Deleted() {
			return viol("step %d: group %d (k=%d) which has not expired is gone or marked deleted", stepIdx, g.id, g.k)
		}
	}
	_ = config.TSSTORE
	return nil
}
