package c14

import (
	"encoding/json"
	"fmt"
	"strings"
	"testing"
	"time"

	"pgregory.net/rapid"
	"verif/internal/bb"
	"verif/internal/ev"
)

// Black-box retention scenarios on the real server (retention check-interval 1 s): a point in an already ended 1 h shard
// group, then a generated sequence of ALTER RETENTION POLICY ... DURATION steps whose deadlines (group end + duration) lie
// a few seconds ahead of / behind the wall clock, with real waiting. Margins: a deadline is "passed" 6 s after it at the
// earliest and deletion must have happened 40 s after it at the latest; "kept" is judged while the deadline is >= 6 s ahead
// (or the policy unlimited / lengthened far ahead).

type bbStep struct {
	Kind   string `json:"kind"`   // finite | inf | far
	AheadS int    `json:"ahead"`  // finite: deadline = now + AheadS seconds (negative: already passed)
	WaitS  int    `json:"wait_s"` // seconds to wait after the step (retention rounds run meanwhile)
}

type bbScenario struct {
	Kind  string   `json:"kind"`
	Steps []bbStep `json:"steps"`
	// IndexDur: optional INDEX DURATION of the policy (longer than the 1 h shard duration: the ended group and the live group
	// then share one index group, which must outlive the expired shard)
	IndexDur string `json:"index_dur,omitempty"`
}

func runBBScenario(sc bbScenario, c *ev.Case) (viol string) {
	srv := bb.NewServer(bb.Options{Prop: 14, Knobs: map[string]string{"retention-check-interval": "1s"}})
	srv.MustStart()
	defer srv.Destroy()
	srv.MustExec("", "create database db0")
	idx := ""
	if sc.IndexDur != "" {
		idx = " index duration " + sc.IndexDur
	}
	srv.MustExec("", "create retention policy rp1 on db0 duration 0s replication 1 shard duration 1h"+idx+" default")
	now := time.Now()
	oldT := now.Add(-3 * time.Hour).Truncate(time.Hour).Add(10 * time.Minute) // inside an ended 1 h group
	groupEnd := oldT.Truncate(time.Hour).Add(time.Hour)
	write := func(body string) {
		st, resp := srv.Write("db0", "rp1", "ns", body)
		for try := 0; st >= 500 && try < 50; try++ {
			time.Sleep(100 * time.Millisecond)
			st, resp = srv.Write("db0", "rp1", "ns", body)
		}
		if st != 204 {
			bb.Fatal("write failed: %d %s", st, resp)
		}
	}
	write(fmt.Sprintf("m,host=old v=1i %d", oldT.UnixNano()))
	write(fmt.Sprintf("m,host=new v=2i %d", now.Add(-time.Minute).UnixNano()))
	have := func(host string) (bool, error) {
		r, err := srv.Query("db0", fmt.Sprintf("select v from rp1.m where host = '%s'", host), nil)
		if err != nil {
			return false, err
		}
		if r.Err != "" {
			if strings.Contains(r.Err, "not found") {
				return false, nil
			}
			return false, fmt.Errorf("%s", r.Err)
		}
		return len(r.Results) > 0 && len(r.Results[0].Series) > 0, nil
	}
	// both points visible (index lag)
	deadline := time.Now().Add(20 * time.Second)
	for {
		a, _ := have("old")
		b, _ := have("new")
		if a && b {
			break
		}
		if time.Now().After(deadline) {
			bb.Fatal("written points never became visible")
		}
		time.Sleep(200 * time.Millisecond)
	}
	// the expiry deadline of the old group under the duration currently in force (zero time = never)
	var curDeadline time.Time
	var lastFormer time.Time // the latest deadline that was in force at some time (stale copies of it must not fire)
	expiredSince := time.Time{} // set when a deadline in force has passed by the margin: the point may (and finally must) go
	checkKept := func(when string) string {
		ok, err := have("old")
		if err != nil {
			return ""
		}
		if !ok {
			return fmt.Sprintf("%s: the point of the old shard group is gone although its group's end + the current duration is not in the past (deadline %v, now %v)", when, curDeadline, time.Now())
		}
		return ""
	}
	for i, st := range sc.Steps {
		switch st.Kind {
		case "inf":
			srv.MustExec("", "alter retention policy rp1 on db0 duration 0s")
			curDeadline = time.Time{}
		case "far":
			srv.MustExec("", "alter retention policy rp1 on db0 duration 1000h")
			curDeadline = groupEnd.Add(1000 * time.Hour)
		default:
			d := time.Until(groupEnd) * -1 // time since the group ended
			dur := d + time.Duration(st.AheadS)*time.Second
			srv.MustExec("", fmt.Sprintf("alter retention policy rp1 on db0 duration %ds", int(dur.Seconds())))
			curDeadline = groupEnd.Add(time.Duration(int(dur.Seconds())) * time.Second)
		}
		if curDeadline.After(lastFormer) && st.Kind == "finite" {
			lastFormer = curDeadline
		}
		c.Op(st)
		// wait, watching: while the deadline in force is >= 6 s ahead (or never) the point must stay
		end := time.Now().Add(time.Duration(st.WaitS) * time.Second)
		for time.Now().Before(end) {
			if !expiredSince.IsZero() {
				break
			}
			if curDeadline.IsZero() || time.Until(curDeadline) > 6*time.Second {
				if v := checkKept(fmt.Sprintf("step %d (%s)", i, st.Kind)); v != "" {
					return v
				}
			} else if time.Since(curDeadline) > 6*time.Second {
				expiredSince = curDeadline // from now on deletion is legitimate (a later lengthening may come too late)
			}
			time.Sleep(500 * time.Millisecond)
		}
		if !expiredSince.IsZero() {
			break
		}
	}
	var forcedAt time.Time
	if expiredSince.IsZero() {
		if curDeadline.IsZero() || time.Until(curDeadline) > time.Hour {
			// unlimited or lengthened far ahead: let every former deadline pass (a store still holding an old duration
			// would delete now), then the point must still be there
			if w := time.Until(lastFormer.Add(8 * time.Second)); w > 0 && w < 60*time.Second {
				time.Sleep(w)
			} else {
				time.Sleep(6 * time.Second)
			}
			if v := checkKept("end of scenario"); v != "" {
				return v
			}
			if ok, _ := have("new"); !ok {
				return "the point inside the retention window is gone"
			}
			if sc.IndexDur == "" {
				return ""
			}
			// shared index group: finally let the old shard expire (deadline 20 s in the past) - the live one must stay readable
			dur := time.Until(groupEnd)*-1 - 20*time.Second
			srv.MustExec("", fmt.Sprintf("alter retention policy rp1 on db0 duration %ds", int(dur.Seconds())))
			curDeadline = groupEnd.Add(time.Duration(int(dur.Seconds())) * time.Second)
			c.Op(bbStep{Kind: "finite", AheadS: -20})
			forcedAt = time.Now()
		}
		// a finite deadline is still ahead: it must stay until then, and be removed after it
		for time.Until(curDeadline) > 6*time.Second {
			if v := checkKept("waiting for the deadline in force"); v != "" {
				return v
			}
			time.Sleep(500 * time.Millisecond)
		}
		if w := time.Until(curDeadline.Add(6 * time.Second)); w > 0 {
			time.Sleep(w)
		}
		expiredSince = curDeadline
		if !forcedAt.IsZero() {
			expiredSince = forcedAt // the 40 s run from the moment the passed deadline came into force
		}
	}
	// expired: the data must be removed within 40 s of the deadline, and the point inside the window must stay
	limit := expiredSince.Add(40 * time.Second)
	for {
		ok, err := have("old")
		if err == nil && !ok {
			break
		}
		if time.Now().After(limit) {
			return fmt.Sprintf("the old shard group expired at %v (end + duration) but its data is still returned 40 s later", expiredSince)
		}
		time.Sleep(time.Second)
	}
	if ok, _ := have("new"); !ok {
		return "the point inside the retention window is gone"
	}
	return ""
}

func TestBBRetentionScenarios(t *testing.T) {
	rapid.Check(t, ev.Prop(prop, "bb_alter_scenarios", func(t *rapid.T, c *ev.Case) {
		sc := bbScenario{Kind: "bb_scenario"}
		// step 1 lets the stores learn a finite duration whose deadline is still ahead; step 2 changes it before the deadline
		// (unlimited / far ahead / a little later / already passed); an optional step 3 changes it once more
		n := rapid.IntRange(2, 3).Draw(t, "steps")
		shape := ""
		for i := 0; i < n; i++ {
			var st bbStep
			switch {
			case i == 0:
				st = bbStep{Kind: "finite", AheadS: rapid.SampledFrom([]int{14, 18, 24}).Draw(t, "ahead0"), WaitS: rapid.IntRange(3, 6).Draw(t, "wait0")}
			default:
				k := rapid.SampledFrom([]string{"inf", "far", "finite", "finite"}).Draw(t, "kind")
				st = bbStep{Kind: k, WaitS: rapid.IntRange(3, 8).Draw(t, "wait")}
				if k == "finite" {
					st.AheadS = rapid.SampledFrom([]int{16, 26, 34, -20}).Draw(t, "ahead")
				}
			}
			sc.Steps = append(sc.Steps, st)
			shape += st.Kind[:3]
			if st.Kind == "finite" && st.AheadS < 0 {
				shape += "-"
			}
			shape += ","
		}
		sc.IndexDur = rapid.SampledFrom([]string{"520w", "", "520w"}).Draw(t, "indexDuration")
		c.Class("shape=" + shape)
		c.Class("index-duration=" + sc.IndexDur)
		v := runBBScenario(sc, c)
		if v != "" {
			c.Failf(t, prop, sc, "%s (scenario %+v)", v, sc)
		}
		if n >= 2 {
			c.Nontrivial(sc)
			c.Sample(sc)
		}
	}))
}

func replayBB(raw json.RawMessage) error {
	var sc bbScenario
	if err := json.Unmarshal(raw, &sc); err != nil {
		return ev.InconclusiveError(err.Error())
	}
	if v := runBBScenario(sc, ev.Begin("replay")); v != "" {
		return fmt.Errorf("%s", v)
	}
	return nil
}
