package c14

// In-process pieces for C14: a meta.Data mutated only by the protobuf commands ts-meta applies, the REAL
// retention.Service (ticking through its own loop) wired to the REAL storage engine (engine.EngineImpl with empty
// partitions: every shard is "not loaded", the branch Engine.ExpiredShards/nilShardIsExpired decides) and to a meta
// client stub that turns the service's requests into the commands the real client would send.

import (
	"fmt"
	"os"
	"path/filepath"
	"sync"
	"time"

	"github.com/openGemini/openGemini/engine"
	"github.com/openGemini/openGemini/lib/config"
	"github.com/openGemini/openGemini/lib/metaclient"
	"github.com/openGemini/openGemini/lib/obs"
	meta2 "github.com/openGemini/openGemini/lib/util/lifted/influx/meta"
	proto2 "github.com/openGemini/openGemini/lib/util/lifted/influx/meta/proto"
	"github.com/openGemini/openGemini/lib/util/lifted/protobuf/proto"
	"github.com/openGemini/openGemini/services/retention"
)

const (
	dbName  = "db0"
	rpName  = "rp0"
	mstName = "m0"
)

func mkCmd(t proto2.Command_Type, desc *proto.ExtensionDesc, val interface{}) *proto2.Command {
	cmd := &proto2.Command{Type: &t}
	if err := proto.SetExtension(cmd, desc, val); err != nil {
		panic(err)
	}
	b, err := proto.Marshal(cmd) // round trip through the wire format as the raft log does
	if err != nil {
		panic(err)
	}
	out := &proto2.Command{}
	if err := proto.Unmarshal(b, out); err != nil {
		panic(err)
	}
	return out
}

type world struct {
	data   *meta2.Data
	client *metaclient.Client // real client over the shared Data (read paths only)
	nodes  []uint64
}

func (w *world) applied() { w.data.Index++ } // the FSM advances the index with every applied command

func newWorld(nodes, ptPerNode int, sgDur time.Duration, dur time.Duration, withObs bool) (*world, error) {
	data := &meta2.Data{Index: 1, PtNumPerNode: uint32(ptPerNode), TakeOverEnabled: true, BalancerEnabled: true, UpdateNodeTmpIndexCommandStart: 1}
	w := &world{data: data}
	for n := 1; n <= nodes; n++ {
		cmd := mkCmd(proto2.Command_CreateDataNodeCommand, proto2.E_CreateDataNodeCommand_Command, &proto2.CreateDataNodeCommand{
			HTTPAddr: proto.String(fmt.Sprintf("127.0.0.%d:8400", n)), TCPAddr: proto.String(fmt.Sprintf("127.0.0.%d:8401", n)), Role: proto.String("")})
		if err := meta2.ApplyCreateDataNode(data, cmd); err != nil {
			return nil, err
		}
		w.applied()
	}
	for i := range data.DataNodes {
		w.nodes = append(w.nodes, data.DataNodes[i].ID)
		cmd := mkCmd(proto2.Command_UpdateNodeStatusCommand, proto2.E_UpdateNodeStatusCommand_Command, &proto2.UpdateNodeStatusCommand{
			ID: proto.Uint64(data.DataNodes[i].ID), Status: proto.Int32(1), Ltime: proto.Uint64(1), GossipAddr: proto.String("8011")})
		if err := meta2.ApplyUpdateNodeStatus(data, cmd); err != nil {
			return nil, err
		}
		w.applied()
	}
	// CREATE DATABASE db0 WITH DURATION dur SHARD DURATION sgDur NAME rp0 (sql: CreateDatabaseWithRetentionPolicy)
	one := 1
	zero := time.Duration(0)
	spec := meta2.RetentionPolicySpec{Name: rpName, Duration: &dur, ReplicaN: &one, ShardGroupDuration: sgDur, HotDuration: &zero, WarmDuration: &zero, IndexColdDuration: &zero}
	rpi := spec.NewRetentionPolicyInfo()
	if err := rpi.CheckSpecValid(); err != nil {
		return nil, fmt.Errorf("spec: %w", err)
	}
	c := &proto2.CreateDatabaseCommand{Name: proto.String(dbName), RetentionPolicy: rpi.Marshal(), EnableTagArray: proto.Bool(false), ReplicaNum: proto.Uint32(1)}
	if withObs {
		c.Options = meta2.MarshalObsOptions(&obs.ObsOptions{Enabled: true, BucketName: "b", Endpoint: "e", Ak: "a", Sk: "s", BasePath: "p"})
	}
	pv := mkCmd(proto2.Command_CreateDbPtViewCommand, proto2.E_CreateDbPtViewCommand_Command, &proto2.CreateDbPtViewCommand{DbName: c.Name, ReplicaNum: c.ReplicaNum})
	if err := meta2.ApplyCreateDbPtViewCommand(data, pv); err != nil {
		return nil, err
	}
	w.applied()
	cmd := mkCmd(proto2.Command_CreateDatabaseCommand, proto2.E_CreateDatabaseCommand_Command, c)
	ext, _ := proto.GetExtension(cmd, proto2.E_CreateDatabaseCommand_Command)
	v := ext.(*proto2.CreateDatabaseCommand)
	pb := v.GetRetentionPolicy()
	rp := &meta2.RetentionPolicyInfo{ // store_fsm.applyCreateDatabaseCommand
		Name: pb.GetName(), ReplicaN: int(pb.GetReplicaN()), Duration: time.Duration(pb.GetDuration()),
		ShardGroupDuration: time.Duration(pb.GetShardGroupDuration()), HotDuration: time.Duration(pb.GetHotDuration()),
		WarmDuration: time.Duration(pb.GetWarmDuration()), IndexColdDuration: time.Duration(pb.GetIndexColdDuration()),
		IndexGroupDuration: time.Duration(pb.GetIndexGroupDuration()), ShardMergeDuration: time.Duration(pb.GetShardMergeDuration())}
	if err := data.CreateDatabase(v.GetName(), rp, v.GetSki(), v.GetEnableTagArray(), 1, v.GetOptions()); err != nil {
		return nil, err
	}
	w.applied()
	for _, pt := range data.DBPtView(dbName) {
		pi := &proto2.PtInfo{Owner: &proto2.PtOwner{NodeID: proto.Uint64(pt.Owner.NodeID)}, Status: proto.Uint32(uint32(pt.Status)), PtId: proto.Uint32(pt.PtId)}
		up := mkCmd(proto2.Command_UpdatePtInfoCommand, proto2.E_UpdatePtInfoCommand_Command, &proto2.UpdatePtInfoCommand{
			Db: proto.String(dbName), Pt: pi, OwnerNode: proto.Uint64(pt.Owner.NodeID), Status: proto.Uint32(uint32(meta2.Online))})
		if err := meta2.ApplyUpdatePtInfo(data, up); err != nil {
			return nil, err
		}
		w.applied()
	}
	ski := &meta2.ShardKeyInfo{ShardKey: nil, Type: meta2.HASH} // write path: createMeasurementBase
	mc := mkCmd(proto2.Command_CreateMeasurementCommand, proto2.E_CreateMeasurementCommand_Command, &proto2.CreateMeasurementCommand{
		DBName: proto.String(dbName), RpName: proto.String(rpName), Name: proto.String(mstName), EngineType: proto.Uint32(uint32(config.TSSTORE)),
		InitNumOfShards: proto.Int32(0), Ski: ski.Marshal()})
	if err := meta2.ApplyCreateMeasurement(data, mc); err != nil {
		return nil, err
	}
	w.applied()
	w.client = metaclient.NewClient("", false, 8)
	w.client.SetCacheData(data)
	return w, nil
}

// createGroup: what a write of a point with this timestamp does (metaclient.CreateShardGroup -> CreateShardGroupCommand).
func (w *world) createGroup(ts time.Time) (uint64, error) {
	sg, tier, err := w.data.GetTierOfShardGroup(dbName, rpName, ts, 0, config.TSSTORE)
	if err != nil {
		return 0, err
	}
	if sg != nil {
		return sg.ID, nil
	}
	cmd := mkCmd(proto2.Command_CreateShardGroupCommand, proto2.E_CreateShardGroupCommand_Command, &proto2.CreateShardGroupCommand{
		Database: proto.String(dbName), Policy: proto.String(rpName), Timestamp: proto.Int64(ts.UnixNano()), ShardTier: proto.Uint64(tier),
		EngineType: proto.Uint32(uint32(config.TSSTORE)), Version: proto.Uint32(0)})
	if err := meta2.ApplyCreateShardGroup(w.data, cmd); err != nil {
		return 0, err
	}
	w.applied()
	rpi, err := w.data.RetentionPolicy(dbName, rpName)
	if err != nil {
		return 0, err
	}
	g := rpi.ShardGroupByTimestampAndEngineType(ts, config.TSSTORE)
	if g == nil {
		return 0, fmt.Errorf("group for %s not created", ts)
	}
	return g.ID, nil
}

// alterDuration: ALTER RETENTION POLICY rp0 ON db0 DURATION d (sql executor -> metaclient.UpdateRetentionPolicy).
func (w *world) alterDuration(d time.Duration) error {
	dd := int64(d)
	cmd := mkCmd(proto2.Command_UpdateRetentionPolicyCommand, proto2.E_UpdateRetentionPolicyCommand_Command, &proto2.UpdateRetentionPolicyCommand{
		Database: proto.String(dbName), Name: proto.String(rpName), Duration: &dd, ReplicaN: proto.Uint32(1), MakeDefault: proto.Bool(false)})
	err := meta2.ApplyUpdateRetentionPolicy(w.data, cmd)
	w.applied()
	return err
}

func (w *world) ptsOfNode(node uint64) []uint32 {
	var out []uint32
	for _, pt := range w.data.DBPtView(dbName) {
		if pt.Owner.NodeID == node {
			out = append(out, pt.PtId)
		}
	}
	return out
}

// ---------------------------------------------------------------- retention service wiring

// svcMeta is the retention service's meta client for one store node.
type svcMeta struct {
	w    *world
	node uint64

	mu       sync.Mutex
	cond     *sync.Cond
	durCalls int
	marks    []uint64 // group ids sent with DeleteShardGroup(MarkDelete)
	prunes   []uint64 // shard ids sent with PruneGroupsCommand(true, id)
}

func newSvcMeta(w *world, node uint64) *svcMeta {
	m := &svcMeta{w: w, node: node}
	m.cond = sync.NewCond(&m.mu)
	return m
}

func (m *svcMeta) PruneGroupsCommand(shardGroup bool, id uint64) error {
	m.mu.Lock()
	defer m.mu.Unlock()
	if shardGroup {
		m.prunes = append(m.prunes, id)
	}
	cmd := mkCmd(proto2.Command_PruneGroupsCommand, proto2.E_PruneGroupsCommand_Command, &proto2.PruneGroupsCommand{ShardGroup: proto.Bool(shardGroup), ID: proto.Uint64(id)})
	err := meta2.ApplyPruneGroups(m.w.data, cmd)
	m.w.applied()
	return err
}

func (m *svcMeta) GetShardDurationInfo(index uint64) (*meta2.ShardDurationResponse, error) {
	m.mu.Lock()
	defer m.mu.Unlock()
	m.durCalls++
	m.cond.Broadcast()
	if m.w.data.Index < index {
		return nil, fmt.Errorf("data is older")
	}
	// ts-meta: Store.getDurationInfo -> Data.DurationInfos(pts of the asking node), over the wire
	res := m.w.data.DurationInfos(map[string][]uint32{dbName: m.w.ptsOfNode(m.node)})
	b, err := res.MarshalBinary()
	if err != nil {
		return nil, err
	}
	out := &meta2.ShardDurationResponse{}
	if err := out.UnmarshalBinary(b); err != nil {
		return nil, err
	}
	return out, nil
}

func (m *svcMeta) GetIndexDurationInfo(index uint64) (*meta2.IndexDurationResponse, error) {
	// index groups are not part of this check: report none (an empty answer is what a node without partitions gets)
	return &meta2.IndexDurationResponse{DataIndex: m.w.data.Index}, nil
}

func (m *svcMeta) DeleteShardGroup(database, policy string, id uint64, deleteType int32) error {
	m.mu.Lock()
	defer m.mu.Unlock()
	m.marks = append(m.marks, id)
	cmd := mkCmd(proto2.Command_DeleteShardGroupCommand, proto2.E_DeleteShardGroupCommand_Command, &proto2.DeleteShardGroupCommand{
		Database: proto.String(database), Policy: proto.String(policy), ShardGroupID: proto.Uint64(id), DeleteType: proto.Int32(deleteType)})
	err := meta2.ApplyDeleteShardGroup(m.w.data, cmd)
	m.w.applied()
	return err
}

func (m *svcMeta) DeleteIndexGroup(database, policy string, id uint64) error { return nil }

func (m *svcMeta) DelayDeleteShardGroup(database, policy string, id uint64, deletedAt time.Time, deleteType int32) error {
	m.mu.Lock()
	defer m.mu.Unlock()
	m.marks = append(m.marks, id)
	cmd := mkCmd(proto2.Command_DeleteShardGroupCommand, proto2.E_DeleteShardGroupCommand_Command, &proto2.DeleteShardGroupCommand{
		Database: proto.String(database), Policy: proto.String(policy), ShardGroupID: proto.Uint64(id), DeletedAt: proto.Int64(deletedAt.UnixNano()), DeleteType: proto.Int32(deleteType)})
	err := meta2.ApplyDeleteShardGroup(m.w.data, cmd)
	m.w.applied()
	return err
}

func (m *svcMeta) GetExpiredShards() ([]meta2.ExpiredShardInfos, []meta2.ExpiredShardInfos) {
	return m.w.client.GetExpiredShards()
}
func (m *svcMeta) GetExpiredIndexes() []meta2.ExpiredIndexInfos { return nil }

// svcEngine is the service's engine: the real one, with the deletions recorded.
type svcEngine struct {
	*engine.EngineImpl
	mu      sync.Mutex
	deleted []uint64 // shard ids passed to DeleteShard
}

func (e *svcEngine) DeleteShard(db string, ptId uint32, shardID uint64) error {
	e.mu.Lock()
	e.deleted = append(e.deleted, shardID)
	e.mu.Unlock()
	return e.EngineImpl.DeleteShard(db, ptId, shardID)
}

var (
	engMu   sync.Mutex
	engines = map[string]*engine.EngineImpl{} // per node slot, shared by the cases of a process: partitions only, never shards
	engRoot string
)

func scratchDir() (string, error) {
	engMu.Lock()
	defer engMu.Unlock()
	if engRoot != "" {
		return engRoot, nil
	}
	d, err := os.MkdirTemp(".", "c14-engine-")
	if err != nil {
		return "", err
	}
	abs, err := filepath.Abs(d)
	if err != nil {
		return "", err
	}
	engRoot = abs
	return engRoot, nil
}

func cleanupScratch() {
	engMu.Lock()
	defer engMu.Unlock()
	done := make(chan struct{})
	go func() {
		for _, e := range engines {
			_ = e.Close()
		}
		close(done)
	}()
	select {
	case <-done:
	case <-time.After(20 * time.Second): // never let the tear-down of the scratch engines keep the process alive
	}
	if engRoot != "" {
		_ = os.RemoveAll(engRoot)
	}
}

// engineFor returns the engine of a node slot with the given partitions created (no shard is ever loaded into it).
func engineFor(w *world, slot int, pts []uint32) (*engine.EngineImpl, error) {
	root, err := scratchDir()
	if err != nil {
		return nil, err
	}
	engMu.Lock()
	defer engMu.Unlock()
	key := fmt.Sprintf("node%d", slot)
	e := engines[key]
	if e == nil {
		opt := engine.NewEngineOptions()
		opt.OpenShardLimit = 4
		loadCtx := &metaclient.LoadCtx{LoadCh: make(chan *metaclient.DBPTCtx, 64)}
		go func() { // the store's load reporter consumes the partitions' periodic load reports
			for ctx := range loadCtx.LoadCh {
				loadCtx.PutReportCtx(ctx)
			}
		}()
		iface, err := engine.NewEngine(filepath.Join(root, key, "data"), filepath.Join(root, key, "wal"), opt, loadCtx)
		if err != nil {
			return nil, err
		}
		e = iface.(*engine.EngineImpl)
		engines[key] = e
	}
	e.SetMetaClient(w.client)
	for _, pt := range pts {
		if _, ok := e.DBPartitions[dbName][pt]; !ok {
			e.CreateDBPT(dbName, pt, false)
		}
	}
	return e, nil
}

type tickResult struct {
	marks   []uint64
	prunes  []uint64
	deleted []uint64
	ticks   int
}

// tick lets the real retention service of one node run at least one full round (Service.handle) through its own loop.
func (w *world) tick(slot int) (*tickResult, error) {
	node := w.nodes[slot]
	eng, err := engineFor(w, slot, w.ptsOfNode(node))
	if err != nil {
		return nil, err
	}
	// the engine of the slot may know partitions of an earlier case that this node does not own now: they hold no shards
	sm := newSvcMeta(w, node)
	se := &svcEngine{EngineImpl: eng}
	svc := retention.NewService(time.Millisecond)
	svc.MetaClient = sm
	svc.Engine = se
	if err := svc.Open(); err != nil {
		return nil, err
	}
	deadline := time.Now().Add(60 * time.Second)
	timedOut := false
	timer := time.AfterFunc(60*time.Second, func() { sm.mu.Lock(); sm.cond.Broadcast(); sm.mu.Unlock() })
	sm.mu.Lock()
	// the second request for durations starts the second round: the first one is complete then
	for sm.durCalls < 2 {
		if time.Now().After(deadline) {
			timedOut = true
			break
		}
		sm.cond.Wait()
	}
	sm.mu.Unlock()
	timer.Stop()
	if err := svc.Close(); err != nil {
		return nil, err
	}
	if timedOut {
		return nil, fmt.Errorf("retention service did not complete a round within 60 s")
	}
	return &tickResult{marks: sm.marks, prunes: sm.prunes, deleted: se.deleted, ticks: sm.durCalls}, nil
}
