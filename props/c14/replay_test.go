package c14

import (
	"encoding/json"
	"testing"

	"verif/internal/ev"
)

// TestReplay re-executes saved cases without rapid. Cases are relative to the wall clock of the run (see case_test.go).
func TestReplay(t *testing.T) {
	ev.RunReplays(func(raw json.RawMessage, f ev.Failure) error {
		var k struct {
			Kind string `json:"kind"`
		}
		if err := json.Unmarshal(raw, &k); err != nil {
			return ev.InconclusiveError(err.Error())
		}
		var err error
		switch k.Kind {
		case "service", "logkeeper":
			var cd caseDesc
			if e := json.Unmarshal(raw, &cd); e != nil {
				return ev.InconclusiveError(e.Error())
			}
			_, err = runCase(cd)
		case "bb_scenario":
			err = replayBB(raw)
		case "shard":
			var sc shardCase
			if e := json.Unmarshal(raw, &sc); e != nil {
				return ev.InconclusiveError(e.Error())
			}
			_, err = runShardCase(sc)
		case "pure":
			var pc pureCase
			if e := json.Unmarshal(raw, &pc); e != nil {
				return ev.InconclusiveError(e.Error())
			}
			_, _, err = runPureCase(pc)
		default:
			return ev.InconclusiveError("no replayer for kind " + k.Kind)
		}
		if err == nil {
			return nil
		}
		if v, ok := err.(*violation); ok {
			return v
		}
		return ev.InconclusiveError(err.Error())
	})
}
