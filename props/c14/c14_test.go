package c14

import (
	"fmt"
	"os"
	"path/filepath"
	"testing"
	"time"

	"github.com/openGemini/openGemini/engine"
	"github.com/openGemini/openGemini/lib/config"
	"github.com/openGemini/openGemini/lib/logger"
	meta2 "github.com/openGemini/openGemini/lib/util/lifted/influx/meta"
	"go.uber.org/zap"
	"pgregory.net/rapid"
	"verif/internal/bb"
	"verif/internal/ev"
)

const prop = "C14"

func TestMain(m *testing.M) {
	logger.SetLogger(zap.NewNop())
	meta2.DataLogger = zap.NewNop()
	code := m.Run()
	cleanupScratch()
	ev.Flush()
	bb.CleanupAll()
	os.Exit(code)
}

// ---------------------------------------------------------------- generators

func genDur(t *rapid.T, sgS int64, ks []int, label string) durSpec {
	if rapid.IntRange(0, 6).Draw(t, label+"_inf") == 0 {
		return durSpec{Inf: true}
	}
	var k int
	if len(ks) > 0 && rapid.IntRange(0, 4).Draw(t, label+"_k_existing") > 0 {
		k = ks[rapid.IntRange(0, len(ks)-1).Draw(t, label+"_k_idx")]
	} else {
		k = rapid.IntRange(3, 12).Draw(t, label+"_k")
	}
	if k < 3 {
		k = 3
	}
	half := sgS / 2
	var mag int64
	switch rapid.IntRange(0, 5).Draw(t, label+"_mag_kind") {
	case 0:
		mag = 120
	case 1:
		mag = 121
	case 2:
		mag = 300
	case 3:
		mag = half
	default:
		mag = rapid.Int64Range(120, half).Draw(t, label+"_mag")
	}
	if rapid.Bool().Draw(t, label+"_not_yet") {
		mag = -mag
	}
	return durSpec{K: k, DeltaS: mag}
}

func genCase(t *rapid.T, kind string) caseDesc {
	cd := caseDesc{Kind: kind}
	cd.Nodes = rapid.SampledFrom([]int{1, 1, 2}).Draw(t, "nodes")
	cd.PtPerNode = rapid.IntRange(1, 3).Draw(t, "pt_per_node")
	cd.SgDurS = rapid.SampledFrom([]int64{3600, 3600, 7200, 86400, 7 * 86400}).Draw(t, "shard_group_duration_s")
	ks := rapid.SliceOfNDistinct(rapid.IntRange(-1, 12), 1, 8, func(k int) int { return k }).Draw(t, "groups")
	cd.Groups = ks
	var old []int
	for _, k := range ks {
		if k >= 3 {
			old = append(old, k)
		}
	}
	cd.Dur = genDur(t, cd.SgDurS, old, "dur")
	stepGen := rapid.Custom(func(t *rapid.T) step {
		switch rapid.IntRange(0, 9).Draw(t, "step_kind") {
		case 0, 1, 2, 3, 4:
			return step{Op: "tick", Node: rapid.IntRange(0, cd.Nodes-1).Draw(t, "node")}
		case 5, 6, 7, 8:
			d := genDur(t, cd.SgDurS, old, "alter")
			return step{Op: "alter", Dur: &d}
		default:
			return step{Op: "create", K: rapid.IntRange(-1, 12).Draw(t, "create_k")}
		}
	})
	cd.Steps = rapid.SliceOfN(stepGen, 1, 10).Draw(t, "steps")
	return cd
}

func runGenerated(t *rapid.T, c *ev.Case, kind string) {
	cd := genCase(t, kind)
	c.Sample(cd)
	c.Class(fmt.Sprintf("nodes=%d", cd.Nodes))
	c.Class(fmt.Sprintf("sg=%ds", cd.SgDurS))
	if cd.Dur.Inf {
		c.Class("initial:INF")
	}
	st, err := runCase(cd)
	if st != nil {
		if st.ticks > 0 {
			c.Class("ticks>=1")
		}
		if st.alters > 0 {
			c.Class("alters>=1")
		}
		if st.flips > 0 {
			c.Class("alter-flips-expiry")
		}
		if st.lengthenKept > 0 {
			c.Class("lengthen-keeps")
		}
		if st.shortenExpired > 0 {
			c.Class("shorten-expires")
		}
		if st.infSeen > 0 {
			c.Class("alter-to-INF")
		}
		if st.expiredSeen > 0 {
			c.Class("round-with-expired-group")
		}
		if st.keptSeen > 0 {
			c.Class("round-with-unexpired-group")
		}
		if st.removedGroups > 0 {
			c.Class("group-removed-from-catalogue")
		}
		if st.partial > 0 {
			c.Class("partially-deleted-group(no assertion)")
		}
		if st.flips > 0 && st.ticks > 0 {
			c.Nontrivial(cd)
		}
	}
	if err != nil {
		if v, ok := err.(*violation); ok {
			c.Failf(t, prop, cd, "%s", v.msg)
		}
		fmt.Printf("VERIF-INCONCLUSIVE harness error: %.600v\ncase: %.2000s\n", err, cd.String())
		t.Skip("harness error")
	}
}

func TestRetentionService(t *testing.T) {
	rapid.Check(t, ev.Prop(prop, "service", func(t *rapid.T, c *ev.Case) { runGenerated(t, c, "service") }))
}

func TestLogkeeperSelection(t *testing.T) {
	rapid.Check(t, ev.Prop(prop, "logkeeper_selection", func(t *rapid.T, c *ev.Case) { runGenerated(t, c, "logkeeper") }))
}

// ---------------------------------------------------------------- open shard: engine.NewShard(...).IsExpired()

type shardCase struct {
	Kind   string    `json:"kind"` // "shard"
	SgDurS int64     `json:"shard_group_duration_s"`
	K      int       `json:"k"`
	Durs   []durSpec `json:"durs"` // duration at open, then the durations later rounds deliver (UpdateShardDurationInfo)
}

var shardSeq int

func runShardCase(sc shardCase) (flips int, err error) {
	s := time.Duration(sc.SgDurS) * time.Second
	r := &runner{s: s}
	r.t0 = time.Now().UTC().Truncate(time.Second)
	r.base = r.t0.Truncate(s)
	if len(sc.Durs) == 0 {
		return 0, herr("no durations")
	}
	root, e := scratchDir()
	if e != nil {
		return 0, herr("scratch: %v", e)
	}
	shardSeq++
	dir := filepath.Join(root, fmt.Sprintf("shard-%d", shardSeq))
	defer os.RemoveAll(dir)
	dataPath := filepath.Join(dir, "data", dbName, "0", rpName, fmt.Sprintf("%d_%d_%d_%d", shardSeq, r.groupStart(sc.K).UnixNano(), r.groupStart(sc.K).Add(s).UnixNano(), 1))
	walPath := filepath.Join(dir, "wal", dbName, "0", rpName, fmt.Sprintf("%d_%d_%d_%d", shardSeq, r.groupStart(sc.K).UnixNano(), r.groupStart(sc.K).Add(s).UnixNano(), 1))
	lock := ""
	d0, e := r.resolve(sc.Durs[0])
	if e != nil {
		return 0, e
	}
	ident := &meta2.ShardIdentifier{ShardID: uint64(shardSeq), ShardGroupID: 1, Policy: rpName, OwnerDb: dbName, OwnerPt: 0}
	di := &meta2.DurationDescriptor{Duration: d0}
	tr := &meta2.TimeRangeInfo{StartTime: r.groupStart(sc.K), EndTime: r.groupStart(sc.K).Add(s)}
	opt := engine.NewEngineOptions()
	sh := engine.NewShard(dataPath, walPath, &lock, ident, di, tr, opt, config.TSSTORE, nil)
	if sh == nil {
		return 0, herr("NewShard returned nil")
	}
	defer sh.Close()
	g := &mgroup{k: sc.K, end: tr.EndTime}
	var prev *bool
	for i, ds := range sc.Durs {
		d, e := r.resolve(ds)
		if e != nil {
			return flips, e
		}
		if i > 0 {
			sh.GetDuration().Duration = d // what Engine.UpdateShardDurationInfo does on every retention round
		}
		r.dur = d
		want, ok := r.expired(g)
		if !ok {
			return flips, herr("verdict inside margin")
		}
		got := sh.IsExpired()
		if got != want {
			return flips, viol("open shard with span ending at T0%+v and policy duration %s (end+duration = T0%+v): IsExpired() = %v, want %v (duration #%d of the case)",
				tr.EndTime.Sub(r.t0), d, tr.EndTime.Add(d).Sub(r.t0), got, want, i)
		}
		if prev != nil && *prev != want {
			flips++
		}
		w := want
		prev = &w
	}
	if time.Since(r.t0) > margin/2 {
		return flips, herr("the run took %s since T0", time.Since(r.t0))
	}
	return flips, nil
}

func TestOpenShardIsExpired(t *testing.T) {
	rapid.Check(t, ev.Prop(prop, "open_shard", func(t *rapid.T, c *ev.Case) {
		sc := shardCase{Kind: "shard"}
		sc.SgDurS = rapid.SampledFrom([]int64{3600, 7200, 86400, 7 * 86400}).Draw(t, "shard_group_duration_s")
		sc.K = rapid.IntRange(-1, 12).Draw(t, "k")
		var old []int
		if sc.K >= 3 {
			old = []int{sc.K}
		}
		n := rapid.IntRange(1, 4).Draw(t, "n_durs")
		for i := 0; i < n; i++ {
			sc.Durs = append(sc.Durs, genDur(t, sc.SgDurS, old, "dur"))
		}
		c.Sample(sc)
		c.Class(fmt.Sprintf("sg=%ds", sc.SgDurS))
		flips, err := runShardCase(sc)
		if flips > 0 {
			c.Class("update-flips-expiry")
			c.Nontrivial(sc)
		}
		if err != nil {
			if v, ok := err.(*violation); ok {
				c.Failf(t, prop, sc, "%s", v.msg)
			}
			fmt.Printf("VERIF-INCONCLUSIVE harness error: %.600v\n", err)
			t.Skip("harness error")
		}
	}))
}

// ---------------------------------------------------------------- RetentionPolicyInfo.ExpiredShardGroups(t): explicit clock, exact boundary

type pureCase struct {
	Kind    string  `json:"kind"` // "pure"
	DurNs   int64   `json:"duration_ns"`
	SgDurNs int64   `json:"shard_group_duration_ns"`
	EndsNs  []int64 `json:"group_ends_ns"` // group end times (unix ns)
	Deleted []bool  `json:"deleted"`       // group already marked deleted
	NowNs   int64   `json:"now_ns"`
}

func runPureCase(pc pureCase) (expired, kept int, err error) {
	rpi := &meta2.RetentionPolicyInfo{Name: rpName, Duration: time.Duration(pc.DurNs), ShardGroupDuration: time.Duration(pc.SgDurNs)}
	for i, e := range pc.EndsNs {
		g := meta2.ShardGroupInfo{ID: uint64(i + 1), StartTime: time.Unix(0, e-pc.SgDurNs).UTC(), EndTime: time.Unix(0, e).UTC()}
		if pc.Deleted[i] {
			g.DeletedAt = time.Unix(0, pc.NowNs-1).UTC()
		}
		rpi.ShardGroups = append(rpi.ShardGroups, g)
	}
	now := time.Unix(0, pc.NowNs).UTC()
	got := map[uint64]bool{}
	for _, g := range rpi.ExpiredShardGroups(now) {
		got[g.ID] = true
	}
	for i, e := range pc.EndsNs {
		want := pc.DurNs != 0 && !pc.Deleted[i] && e+pc.DurNs < pc.NowNs // ended MORE than duration ago
		if want {
			expired++
		} else {
			kept++
		}
		if got[uint64(i+1)] != want {
			return expired, kept, viol("ExpiredShardGroups(now): group ending at now%+dns with duration %dns (end+duration = now%+dns, deleted=%v): selected=%v, want %v",
				e-pc.NowNs, pc.DurNs, e+pc.DurNs-pc.NowNs, pc.Deleted[i], got[uint64(i+1)], want)
		}
	}
	return expired, kept, nil
}

func TestExpiredShardGroupsPure(t *testing.T) {
	rapid.Check(t, ev.Prop(prop, "expired_groups_pure", func(t *rapid.T, c *ev.Case) {
		pc := pureCase{Kind: "pure"}
		pc.NowNs = rapid.Int64Range(1_600_000_000_000_000_000, 1_900_000_000_000_000_000).Draw(t, "now")
		pc.SgDurNs = int64(rapid.SampledFrom([]time.Duration{time.Hour, 24 * time.Hour, 168 * time.Hour}).Draw(t, "sg"))
		if rapid.IntRange(0, 5).Draw(t, "inf") == 0 {
			pc.DurNs = 0
		} else {
			pc.DurNs = rapid.Int64Range(int64(time.Hour), int64(400*24*time.Hour)).Draw(t, "dur")
		}
		n := rapid.IntRange(1, 6).Draw(t, "n")
		boundary := false
		for i := 0; i < n; i++ {
			var delta int64 // now - (end+dur)
			switch rapid.IntRange(0, 6).Draw(t, "delta_kind") {
			case 0:
				delta = 0
				boundary = true
			case 1:
				delta = 1
				boundary = true
			case 2:
				delta = -1
				boundary = true
			case 3:
				delta = int64(2 * time.Second)
			case 4:
				delta = -int64(2 * time.Second)
			default:
				delta = rapid.Int64Range(-int64(30*24*time.Hour), int64(30*24*time.Hour)).Draw(t, "delta")
			}
			pc.EndsNs = append(pc.EndsNs, pc.NowNs-pc.DurNs-delta)
			pc.Deleted = append(pc.Deleted, rapid.IntRange(0, 5).Draw(t, "deleted") == 0)
		}
		c.Sample(pc)
		if pc.DurNs == 0 {
			c.Class("INF")
		}
		if boundary {
			c.Class("boundary+-1ns")
		}
		exp, kept, err := runPureCase(pc)
		if exp > 0 {
			c.Class("some-expired")
		}
		if kept > 0 {
			c.Class("some-kept")
		}
		if boundary && pc.DurNs != 0 {
			c.Nontrivial(pc)
		}
		if err != nil {
			c.Failf(t, prop, pc, "%s", err.Error())
		}
	}))
}
