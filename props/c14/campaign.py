from campaigns_util import B

SPEC = {
    "pkg": "props/c14", "level": "exploration", "bins": ["ts-server"],
    "rule": ("generated catalogue (1-2 store nodes, 1-3 partitions each, shard-group duration 1h/2h/1d/7d, policy duration INF or set so that a chosen group expires a generated "
             "delta (2 min .. half a group, both signs) before/after the run's clock reading T0; groups -1..12 group-durations back from now) built with the commands ts-meta applies; "
             "histories of ALTER ... DURATION (shorten / lengthen / INF), writes creating groups, and retention rounds per node. service: the REAL retention.Service ticks through its own loop "
             "against the REAL engine (shards not loaded -> Engine.UpdateShardDurationInfo/ExpiredShards/nilShardIsExpired) and a meta client that applies DeleteShardGroup/PruneGroups commands: "
             "everything a round deletes, marks or prunes belongs to a group with end + CURRENT duration < now; duration 0 never; an unexpired or lengthened-in-time group stays untouched in the catalogue; "
             "every shard of an expired group is deleted by its owner's round and the group leaves the catalogue once all owners ran. logkeeper_selection: metaclient.GetExpiredShards + DelayDeleteShardGroup "
             "select/mark exactly the expired groups. open_shard: engine.NewShard(...).IsExpired() for an open shard, before and after duration updates. expired_groups_pure: "
             "bb_alter_scenarios: the real server with retention check-interval 1 s, a point in an ended 1 h group (policy with the default or a 520-week INDEX DURATION, i.e. ended and live group sharing one index group) and generated ALTER ... DURATION steps (deadline 14-24 s ahead, already passed, unlimited, far) with real waiting: the point stays while the deadline in force is >= 6 s ahead, is removed within 40 s once a deadline passed. RetentionPolicyInfo.ExpiredShardGroups(t) with an explicit clock at end+duration-1ns/0/+1ns. Non-trivial: the history contains an ALTER that flips a group's expiry and a later round "
             "(service/logkeeper), a duration update that flips IsExpired (open_shard), a +-1 ns boundary (pure); distinct = hash of the case"),
    "assumptions": [
        "the code reads time.Now() itself: cases are relative to the wall clock, every verdict has a margin of >= 2 minutes; a run that stalls for more than 1 minute is inconclusive",
        "ALTER happens between retention rounds (a change between a round's duration refresh and its deletion step is a sub-millisecond race not modelled)",
        "no assertion for a group whose deletion began on one node before an ALTER made it unexpired for the other owner (statement does not say)",
        "index groups, tiering and the physical deletion of shard files (engine.DeleteShard of a loaded shard, OBS paths) are outside this library-level check",
    ],
    "campaigns": [
        {"name": "service", "run": "^TestRetentionService$", "quick": B(600, 6), "thorough": B(60000, 8, 5400)},
        {"name": "logkeeper_selection", "run": "^TestLogkeeperSelection$", "quick": B(3000, 1), "thorough": B(300000, 2, 5400)},
        {"name": "open_shard", "run": "^TestOpenShardIsExpired$", "quick": B(500, 2), "thorough": B(40000, 3, 5400)},
        {"name": "bb_alter_scenarios", "run": "^TestBBRetentionScenarios$", "quick": B(1, 6, 900, shrinktime="1s"), "thorough": B(8, 8, 3400, shrinktime="1s")},
        {"name": "expired_groups_pure", "run": "^TestExpiredShardGroupsPure$", "quick": B(20000, 1), "thorough": B(2000000, 2, 5400)},
    ],
}

META = {
    "engine": "lib-rapid", "also": ["bb-server"],
    "technique": "property-based testing (rapid; library campaigns plus real-server scenarios) of the retention service's expiry selection against the arithmetic of the statement, over generated catalogues and ALTER histories, relative to the wall clock with wide margins",
    "text": ("The real retention service, the real engine's expiry test for not-loaded and open shards and the meta client's expired-group query must select for deletion exactly the shard groups "
             "whose span ended more than the policy's current duration ago; unlimited policies never lose groups; lengthening before a round keeps the group; expired groups leave the catalogue. "
             "Exploration: finds counterexamples, never proves absence."),
    "note": "Mostly library level (no data files written or deleted there); the bb_alter_scenarios campaign runs a handful of real-server scenarios with seconds-scale margins. The wall clock cannot be moved: boundary behaviour closer than 2 minutes to end+duration is only covered for the pure function with an explicit clock.",
}
