from campaigns_util import B

SPEC = {
    "pkg": "props/c01", "level": "fault_enumeration", "bins": ["ts-server"],
    "rule": ("rapid state machine over one real ts-server (verif build): write batches (biased to overwrite), forced flush, drop measurement, "
             "kill -9, clean restart, crash armed before the k-th file mutation matching a generated pattern (optionally torn write), crash during "
             "recovery; after every restart the full dump must equal the last-write-wins model of acknowledged writes (lost acknowledgements: old or new). "
             "Non-trivial: a crash fired while acknowledged points were not yet flushed, or inside a log/file/index mutation; distinct by (crash classes, op list)"),
    "assumptions": ["process death only (kill -9, OS survives): pages written but not fsynced are not lost",
                    "states during recovery are not judged, only the state once the dump is admissible or 30 s passed"],
    "campaigns": [
        {"name": "crash_histories", "run": "^TestCrashHistories$", "quick": B(3, 8, 900, steps=12, shrinktime="60s"),
         "thorough": B(12, 14, 3400, steps=25, shrinktime="120s")},
        {"name": "enumerate_k", "run": "^TestEnumerateK$", "quick": B(1, 8, 900), "thorough": B(1, 14, 3400)},
    ],
    "max_parallel": 18,
    "exhaustive_note": ("enumerate_k: for each fixed history family (flush, recovery; thorough adds first-write, write-after-flush, second-flush, drop) the crash "
                        "point k ranges over every file mutation 1..N+1 of the window (N from an un-armed run, see notes.mutations_per_family); k is exhaustive for "
                        "those histories, the histories themselves are a fixed sample"),
}

META = {
    "engine": "bb-server",
    "technique": "model-based stateful PBT (rapid) against the real server with generated crash points (fileops hook), LWW model oracle",
    "text": ("Generated write/flush/drop/crash/restart histories against the shipped server binary; crash points are generated integers k = die before the "
             "k-th matching file mutation (also torn writes and crashes during recovery). Fault enumeration by sampling, plus exhaustive k in the thorough family."),
    "note": "Trusts the harness' LWW model, the fileops hook's total order of mutations, and HTTP status 204 as the acknowledgement.",
}
