package c01

import (
	"fmt"
	"os"
	"strconv"
	"testing"

	"verif/internal/ev"
)

// Exhaustive crash-point enumeration for a family of fixed small histories: the crash point k ranges over
// EVERY file mutation (1..N+1, N measured by an un-armed profiling run) of the window that follows the arm
// point; one fresh server per k.

func pw(m, host string, t int, fields map[string]string) PointJ {
	return PointJ{Mst: m, Host: host, T: t, Fields: fields}
}

type family struct {
	name       string
	partitions int
	pre        []Op // before the arm point
	window     []Op // the operations whose mutations are enumerated
	post       []Op
	recovery   bool // enumerate mutations of the recovery after a kill instead (window is ignored)
}

func families() []family {
	w1 := Op{Kind: "write", Points: []PointJ{pw("m0", "a", 0, map[string]string{"i": "1", "f": "1.5"}), pw("m1", "b", 1, map[string]string{"s": "x1", "b": "true"}), pw("m0", "b", 9, map[string]string{"i": "2"})}}
	w2 := Op{Kind: "write", Points: []PointJ{pw("m0", "a", 0, map[string]string{"i": "3"}), pw("m0", "c", 2, map[string]string{"f": "2.5", "s": "x2"})}}
	w3 := Op{Kind: "write", Points: []PointJ{pw("m0", "a", 0, map[string]string{"i": "4", "s": "x3"})}}
	w4 := Op{Kind: "write", Points: []PointJ{pw("m0", "a", 0, map[string]string{"i": "5"}), pw("m1", "b", 1, map[string]string{"s": "x4"})}}
	return []family{
		{name: "flush", partitions: 2, pre: []Op{w1, w2}, window: []Op{{Kind: "flush"}}, post: []Op{w3}},
		{name: "recovery", partitions: 3, pre: []Op{w1, {Kind: "flush"}, w2, w3}, recovery: true, post: []Op{w4}},
		{name: "first-write", partitions: 16, pre: nil, window: []Op{w1}, post: []Op{w2}},
		{name: "write-after-flush", partitions: 2, pre: []Op{w1, {Kind: "flush"}}, window: []Op{w2, w3, w4}, post: nil},
		{name: "second-flush", partitions: 3, pre: []Op{w1, {Kind: "flush"}, w2, w3}, window: []Op{{Kind: "flush"}}, post: []Op{w4}},
		{name: "drop", partitions: 2, pre: []Op{w1, {Kind: "flush"}, w2}, window: []Op{{Kind: "drop", Mst: "m0"}}, post: []Op{w3}},
	}
}

// profile runs the family without a crash and returns the number of mutations in the window.
func profile(f family) (n int, err error) {
	c := ev.Begin("enum_profile")
	var m *machine
	defer func() {
		if m != nil {
			m.srv.Destroy()
		}
		if r := recover(); r != nil {
			if v, ok := r.(violation); ok {
				err = fmt.Errorf("%s", v.msg)
				return
			}
			panic(r)
		}
	}()
	m = newMachine(c, f.partitions, func(format string, a ...any) { panic(violation{fmt.Sprintf(format, a...)}) })
	for _, op := range f.pre {
		m.exec(op)
	}
	before := len(m.srv.Trace())
	if f.recovery {
		m.srv.Kill()
		before = len(m.srv.Trace())
		m.recover("kill -9 (profiling)")
	} else {
		for _, op := range f.window {
			m.exec(op)
		}
	}
	return len(m.srv.Trace()) - before, nil
}

func runK(f family, k int) (fired bool, err error) {
	c := ev.Begin("enumerate_k")
	var m *machine
	defer func() {
		if m != nil {
			m.srv.Destroy()
		}
		if r := recover(); r != nil {
			if v, ok := r.(violation); ok {
				err = fmt.Errorf("%s | executed: %v", v.msg, summarize(c.Ops()))
				return
			}
			panic(r)
		}
		c.Class("family=" + f.name)
		if fired {
			c.Class("crash-fired")
			c.Nontrivial(fmt.Sprintf("%s/k=%d", f.name, k))
			c.Sample(map[string]any{"family": f.name, "k": k, "partitions": f.partitions, "ops": summarize(c.Ops())})
		}
		c.Done()
	}()
	m = newMachine(c, f.partitions, func(format string, a ...any) { panic(violation{fmt.Sprintf(format, a...)}) })
	for _, op := range f.pre {
		m.exec(op)
	}
	if f.recovery {
		m.exec(Op{Kind: "restartArmed", Arm: ".", K: k})
	} else {
		m.exec(Op{Kind: "arm", Arm: ".", K: k, Torn: -1})
		for _, op := range f.window {
			if !m.srv.Alive() {
				break
			}
			m.exec(op)
		}
		m.exec(Op{Kind: "disarm"})
	}
	fired = m.crashes > 0
	for _, op := range f.post {
		m.exec(op)
	}
	m.finish()
	return fired, nil
}

func TestEnumerateK(t *testing.T) {
	shard, _ := strconv.Atoi(os.Getenv("VERIF_SHARD"))
	shards, _ := strconv.Atoi(os.Getenv("VERIF_SHARDS"))
	if shards == 0 {
		shards = 1
	}
	fams := families()
	if ev.Tier() == "quick" {
		fams = fams[:2]
	}
	total := map[string]int{}
	job := 0
	for _, f := range fams {
		n, err := profile(f)
		if err != nil {
			c := ev.Begin("enumerate_k")
			c.FailTB(t, prop, map[string]any{"kind": "enum", "family": f.name, "k": 0}, "family %s fails without any crash: %v", f.name, err)
		}
		total[f.name] = n
		for k := 1; k <= n+1; k++ {
			job++
			if job%shards != shard {
				continue
			}
			if _, err := runK(f, k); err != nil {
				c := ev.Begin("enumerate_k")
				c.FailTB(t, prop, map[string]any{"kind": "enum", "family": f.name, "k": k}, "family %s, crash before mutation %d of %d: %v", f.name, k, n, err)
			}
		}
	}
	ev.Note("enumerate_k", "mutations_per_family", total)
}
