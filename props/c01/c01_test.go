package c01

import (
	"encoding/json"
	"fmt"
	"os"
	"sort"
	"strings"
	"testing"
	"time"

	"pgregory.net/rapid"
	"verif/internal/bb"
	"verif/internal/ev"
	"verif/internal/model"
)

const prop = "C01"

func TestMain(m *testing.M) {
	code := m.Run()
	ev.Flush()
	bb.CleanupAll()
	os.Exit(code)
}

var kinds = map[string]model.Kind{"i": model.Int, "f": model.Float, "s": model.String, "b": model.Bool}
var msts = []string{"m0", "m1"}
var hosts = []string{"a", "b", "c"}

const t0 = int64(1700000000) * 1e9
const week = int64(7*24*3600) * 1e9

// 12 timestamps: 8 in one shard group, 4 in the next one
func tsOf(i int) int64 {
	if i < 8 {
		return t0 + int64(i)*1e9
	}
	return t0 + week + int64(i-8)*1e9
}

// Op is one executed operation (the replay format).
type Op struct {
	Kind   string        `json:"op"`
	Points []PointJ      `json:"points,omitempty"`
	Mst    string        `json:"mst,omitempty"`
	Arm    string        `json:"arm,omitempty"`
	K      int           `json:"k,omitempty"`
	Torn   int           `json:"torn,omitempty"`
	Note   string        `json:"note,omitempty"`
}

type PointJ struct {
	Mst    string            `json:"m"`
	Host   string            `json:"host"`
	T      int               `json:"t"`
	Fields map[string]string `json:"fields"` // rendered values: 12i, 1.5, "x", true
}

func (p PointJ) toModel() model.Point {
	mp := model.Point{Mst: p.Mst, Tags: map[string]string{"host": p.Host}, Time: tsOf(p.T), Fields: map[string]model.Value{}}
	for k, v := range p.Fields {
		switch kinds[k] {
		case model.Int:
			var i int64
			fmt.Sscanf(v, "%d", &i)
			mp.Fields[k] = model.IntV(i)
		case model.Float:
			var f float64
			fmt.Sscanf(v, "%g", &f)
			mp.Fields[k] = model.FloatV(f)
		case model.String:
			mp.Fields[k] = model.StrV(v)
		default:
			mp.Fields[k] = model.BoolV(v == "true")
		}
	}
	return mp
}

func genPoint(t *rapid.T, counter *int, hot []PointJ) PointJ {
	var p PointJ
	if len(hot) > 0 && rapid.IntRange(0, 2).Draw(t, "overwrite") == 0 {
		// overwrite an existing (series,time)
		h := hot[rapid.IntRange(0, len(hot)-1).Draw(t, "which")]
		p = PointJ{Mst: h.Mst, Host: h.Host, T: h.T}
	} else {
		p = PointJ{Mst: rapid.SampledFrom(msts).Draw(t, "mst"), Host: rapid.SampledFrom(hosts).Draw(t, "host"), T: rapid.IntRange(0, 11).Draw(t, "t")}
	}
	p.Fields = map[string]string{}
	nf := rapid.IntRange(1, 4).Draw(t, "nf")
	names := []string{"i", "f", "s", "b"}
	start := rapid.IntRange(0, 3).Draw(t, "f0")
	for j := 0; j < nf; j++ {
		*counter++
		n := names[(start+j)%4]
		switch n {
		case "i":
			p.Fields[n] = fmt.Sprint(*counter)
		case "f":
			p.Fields[n] = fmt.Sprintf("%g", float64(*counter)+0.5)
		case "s":
			p.Fields[n] = fmt.Sprintf("v%d", *counter)
		default:
			p.Fields[n] = fmt.Sprint(*counter%2 == 0)
		}
	}
	return p
}


type machine struct {
	srv       *bb.Server
	st        *model.Store
	c         *ev.Case
	fail      func(format string, a ...any) // reports a violation and aborts the case
	counter   int
	written   []PointJ
	visible   map[string]bool // series keys known to be listed by show series
	crashes   int
	unflushed int // acked points written since the last completed flush
	ntKey     []string
	dropped   map[string]bool
	bg        chan struct{} // a flush running in the background
	gen       []model.Point // acknowledged writes since the last completed flush (one log generation)
	strict    bool          // replays: no relaxation for known-finding classes
}

const db = "db0"

func newMachine(c *ev.Case, cpus int, fail func(format string, a ...any)) *machine {
	m := &machine{st: model.NewStore(), c: c, fail: fail, visible: map[string]bool{}, dropped: map[string]bool{}}
	// the harness owns every flush: no background flush of a cold memtable opens a two-log-generation window (known finding) behind its back
	m.srv = bb.NewServer(bb.Options{Prop: 1, Instance: 0, CPUs: cpus, Knobs: map[string]string{"write-cold-duration": "1h"}})
	m.srv.MustStart()
	m.srv.MustExec("", "create database "+db)
	c.Op(Op{Kind: "start", K: cpus})
	return m
}

// verify polls the dump until it is an admissible state (<= 30 s).
func (m *machine) verify(when string) {
	deadline := time.Now().Add(30 * time.Second)
	var diffs []string
	for {
		diffs = diffs[:0]
		obsAll := model.Observed{}
		var qerr error
		for _, mst := range msts {
			obs, err := m.srv.Dump(db, mst, kinds)
			if err != nil {
				qerr = err
				break
			}
			for k, v := range obs {
				obsAll[k] = v
			}
		}
		if qerr != nil {
			diffs = append(diffs, "query failed: "+qerr.Error())
		} else {
			diffs = append(diffs, m.st.Compare(obsAll, "")...)
			if len(diffs) == 0 {
				// a dropped measurement must not be listed again
				names, err := m.srv.ShowMeasurements(db)
				if err == nil {
					_, may := m.st.Measurements()
					for _, n := range names {
						if !may[n] && m.dropped[n] {
							diffs = append(diffs, "RESURRECTED measurement "+n)
						}
					}
				}
			}
			if len(diffs) == 0 {
				// cells touched by a write whose acknowledgement was lost stay uncertain: the request may still
				// surface later (log replay / index visibility lag), which the statement allows
				return
			}
		}
		if !m.srv.Alive() {
			bb.Fatal("server died while verifying (%s): %s", when, m.srv.TailLog(1500))
		}
		if time.Now().After(deadline) {
			break
		}
		time.Sleep(300 * time.Millisecond)
	}
	m.fail("after %s the database differs from the acknowledged history: %s", when, strings.Join(diffs, "; "))
}

func (m *machine) recover(when string) {
	m.srv.Kill()
	if m.bg != nil {
		<-m.bg
		m.bg = nil
	}
	m.srv.Start("")
	if !m.srv.WaitReady(90 * time.Second) {
		if p := m.srv.PanicInLogs(); p != "" {
			m.fail("server does not come back after %s: %s", when, p)
		}
		bb.Fatal("server not ready after restart (%s): %s", when, m.srv.TailLog(1500))
	}
	m.unflushed = 0
	m.gen = nil
	m.verify(when)
}

func (m *machine) awaitVisible(ps []PointJ) {
	var want []string
	for _, p := range ps {
		k := model.SeriesKeyOf(p.Mst, map[string]string{"host": p.Host})
		if !m.visible[k] {
			want = append(want, k)
		}
	}
	if len(want) == 0 {
		return
	}
	missing := m.srv.AwaitSeries(db, want, 60*time.Second) // (generous: index visibility after a recovery is a lag, not a loss, unless it never ends)
	if len(missing) > 0 {
		if !m.srv.Alive() {
			return
		}
		m.fail("series of acknowledged points never became visible: %v", missing)
	}
	for _, k := range want {
		m.visible[k] = true
	}
}

// afterAction handles a server that died (an armed crash fired) during the action.
func (m *machine) afterAction(what string) bool {
	if m.srv.Alive() {
		return false
	}
	m.crashes++
	tr := m.srv.Trace()
	last := ""
	if len(tr) > 0 {
		last = tr[len(tr)-1]
	}
	cls := classify(last)
	if cls == "log-removal" && partialLogRemoval(tr) {
		cls = "partial-log-removal"
		// KNOWN FINDING C01-partial-log-removal: some log files of the flushed generation were removed, the rest is
		// replayed on top of the flushed data, so an older value of a cell written more than once in that generation
		// may win. Exactly those cells are made uncertain (any value written to them in that generation), counted.
		if n := overwrittenCells(m.gen); n > 0 && !m.strict {
			m.c.Excluded("known:C01-partial-log-removal(cells)")
			m.st.Apply(m.gen, false)
		}
	}
	m.c.Class("crash:" + cls)
	m.c.Op(Op{Kind: "crashed", Note: last})
	if m.unflushed > 0 || cls != "other" {
		m.ntKey = append(m.ntKey, cls+"@"+what)
	}
	m.recover("crash (" + cls + ") during " + what)
	return true
}

// partialLogRemoval: the process died before removing a log file while another log file had already been
// removed after the last data file was committed (renamed).
func partialLogRemoval(trace []string) bool {
	for i := len(trace) - 2; i >= 0; i-- { // last line is the DIE-BEFORE marker
		l := trace[i]
		if strings.Contains(l, "DIE-BEFORE") {
			continue
		}
		if strings.Contains(l, " remove ") && strings.Contains(l, ".wal") {
			return true
		}
		if strings.Contains(l, " rename ") || strings.Contains(l, " write ") {
			return false
		}
	}
	return false
}

func overwrittenCells(gen []model.Point) int {
	seen := map[string]int{}
	n := 0
	for _, p := range gen {
		for f := range p.Fields {
			k := fmt.Sprintf("%s|%d|%s", model.SeriesKeyOf(p.Mst, p.Tags), p.Time, f)
			seen[k]++
			if seen[k] == 2 {
				n++
			}
		}
	}
	return n
}

func classify(traceLine string) string {
	switch {
	case strings.Contains(traceLine, ".wal") && strings.Contains(traceLine, "remove"):
		return "log-removal"
	case strings.Contains(traceLine, ".wal") && (strings.Contains(traceLine, "create") || strings.Contains(traceLine, "openfile")):
		return "log-switch"
	case strings.Contains(traceLine, ".wal"):
		return "log-write"
	case strings.Contains(traceLine, ".tssp") && strings.Contains(traceLine, "rename"):
		return "file-commit"
	case strings.Contains(traceLine, ".tssp"):
		return "file-write"
	case strings.Contains(traceLine, "mergeset") || strings.Contains(traceLine, "index"):
		return "index"
	default:
		return "other"
	}
}

// exec executes one operation of a history (shared by the generated campaign, the k-enumeration and replays).
func (m *machine) exec(op Op) {
	c := m.c
	switch op.Kind {
	case "start", "crashed", "final-kill":
		return
	}
	c.Op(op)
	switch op.Kind {
	case "write":
		ps := op.Points
		mps := make([]model.Point, len(ps))
		for i := range ps {
			mps[i] = ps[i].toModel()
		}
		status, body := m.srv.Write(db, "", "ns", model.Lines(mps))
		// a 5xx answer is a refusal, not an acknowledgement (e.g. "shard group not found" right after the
		// group was created): the client retries; what the refused attempts stored is uncertain
		for try := 0; status >= 500 && m.srv.Alive() && try < 50; try++ {
			c.Class("write-refused-5xx")
			m.st.Apply(mps, false)
			time.Sleep(100 * time.Millisecond)
			status, body = m.srv.Write(db, "", "ns", model.Lines(mps))
		}
		switch {
		case status == 204:
			m.st.Apply(mps, true)
			m.gen = append(m.gen, mps...)
			m.unflushed += len(ps)
			for _, p := range ps {
				delete(m.dropped, p.Mst)
			}
			m.awaitVisible(ps)
		case status == 0 || !m.srv.Alive():
			m.st.Apply(mps, false)
			for _, p := range ps {
				delete(m.dropped, p.Mst)
			}
		default:
			m.fail("valid write rejected with status %d: %s", status, body)
		}
		m.written = append(m.written, ps...)
		if len(m.written) > 40 {
			m.written = m.written[len(m.written)-40:]
		}
		m.afterAction("write")
	case "flush":
		st, _ := m.srv.Flush()
		m.afterAction("flush")
		if st == 200 || st == 204 {
			m.unflushed = 0
			m.gen = nil
		}
	case "arm":
		m.srv.Arm(op.Arm, op.K, op.Torn)
		c.Class("armed")
	case "stall":
		m.srv.Stall(op.Arm, op.K)
		c.Class("stall")
	case "sleep":
		time.Sleep(time.Duration(op.K) * time.Millisecond)
	case "flushAsync":
		// a flush running concurrently with the following writes
		if m.bg == nil {
			ch := make(chan struct{})
			m.bg = ch
			go func() {
				m.srv.Flush()
				close(ch)
			}()
			c.Class("flush-concurrent")
		}
	case "join":
		if m.bg != nil {
			<-m.bg
			m.bg = nil
			m.srv.Stall("", 0)
			m.afterAction("concurrent flush")
		}
	case "disarm":
		if m.srv.Alive() {
			m.srv.Disarm()
		}
	case "kill":
		c.Class("kill-now")
		if m.unflushed > 0 {
			m.ntKey = append(m.ntKey, "kill-with-unflushed")
		}
		m.crashes++
		m.recover("kill -9")
	case "restart":
		c.Class("clean-restart")
		if !m.srv.Term(120 * time.Second) {
			m.fail("server did not exit within 120 s of SIGTERM")
		}
		m.srv.Start("")
		if !m.srv.WaitReady(90 * time.Second) {
			bb.Fatal("server not ready after clean restart: %s", m.srv.TailLog(1500))
		}
		m.unflushed = 0
		m.verify("clean restart")
	case "restartArmed":
		m.srv.Kill()
		m.srv.Start(fmt.Sprintf("%s,%d", op.Arm, op.K))
		died := false
		deadline := time.Now().Add(40 * time.Second)
		for time.Now().Before(deadline) {
			if !m.srv.Alive() {
				died = true
				break
			}
			if m.srv.WaitReady(300 * time.Millisecond) {
				// up: give the (synchronous) recovery a moment, then see whether it still lives
				time.Sleep(300 * time.Millisecond)
				if m.srv.Alive() {
					break
				}
			}
		}
		if died || !m.srv.Alive() {
			c.Class("crash:replay")
			m.ntKey = append(m.ntKey, "crash-in-replay")
			m.crashes++
			tr := m.srv.Trace()
			if len(tr) > 0 {
				c.Op(Op{Kind: "crashed", Note: tr[len(tr)-1]})
			}
		}
		m.recover("crash during recovery")
	case "drop":
		mst := op.Mst
		c.Class("drop-measurement")
		r, err := m.srv.Query(db, "drop measurement "+bb.Quote(mst), nil)
		if err == nil && r.Err == "" {
			m.st.DropMeasurement(mst, true)
			m.dropped[mst] = true
			for k := range m.visible {
				if strings.HasPrefix(k, mst+",") {
					delete(m.visible, k)
				}
			}
			var w []PointJ
			for _, p := range m.written {
				if p.Mst != mst {
					w = append(w, p)
				}
			}
			m.written = w
		} else if err != nil || !m.srv.Alive() {
			m.st.DropMeasurement(mst, false)
		} else {
			m.fail("drop measurement failed: %s", r.Err)
		}
		m.afterAction("drop")
	default:
		bb.Fatal("unknown op %q", op.Kind)
	}
}

func (m *machine) finish() {
	m.c.Op(Op{Kind: "final-kill"})
	m.recover("final kill -9")
	if m.crashes > 0 && len(m.ntKey) > 0 {
		sort.Strings(m.ntKey)
		m.c.Nontrivial(map[string]any{"crashes": m.ntKey, "ops": m.c.Ops()})
		m.c.Sample(map[string]any{"crash_classes": m.ntKey, "ops": summarize(m.c.Ops())})
	}
}

func runHistory(t *rapid.T, c *ev.Case) {
	cpus := rapid.SampledFrom([]int{1, 2, 3, 16}).Draw(t, "walPartitions")
	c.Class(fmt.Sprintf("partitions=%d", cpus))
	var m *machine
	m = newMachine(c, cpus, func(format string, a ...any) {
		c.Failf(t, prop, map[string]any{"kind": "history", "partitions": cpus}, format, a...)
	})
	defer m.srv.Destroy()

	genWrite := func(t *rapid.T) Op {
		n := rapid.IntRange(1, 8).Draw(t, "n")
		ps := make([]PointJ, n)
		for i := range ps {
			ps[i] = genPoint(t, &m.counter, m.written)
		}
		return Op{Kind: "write", Points: ps}
	}
	actions := map[string]func(*rapid.T){
		"write":  func(t *rapid.T) { m.exec(genWrite(t)) },
		"write2": func(t *rapid.T) { m.exec(genWrite(t)) },
		"overwriteLast": func(t *rapid.T) {
			if len(m.written) == 0 {
				t.Skip("nothing written")
			}
			// one more write to the (series,time) written last: the order of the two must survive
			last := m.written[len(m.written)-1]
			p := genPoint(t, &m.counter, []PointJ{last, last, last})
			p.Mst, p.Host, p.T = last.Mst, last.Host, last.T
			if _, ok := p.Fields["i"]; !ok {
				m.counter++
				p.Fields["i"] = fmt.Sprint(m.counter)
			}
			c.Class("overwrite-last")
			m.exec(Op{Kind: "write", Points: []PointJ{p}})
		},
		"flush": func(t *rapid.T) { m.exec(Op{Kind: "flush"}) },
		"arm": func(t *rapid.T) {
			pat := rapid.SampledFrom([]string{`\.wal`, `\.tssp`, `mergeset|index`, `/data/`, `wal/`, `.`}).Draw(t, "pattern")
			k := rapid.IntRange(1, 40).Draw(t, "k")
			torn := -1
			if rapid.IntRange(0, 3).Draw(t, "tornp") == 0 {
				torn = rapid.IntRange(0, 64).Draw(t, "torn")
			}
			m.exec(Op{Kind: "arm", Arm: pat, K: k, Torn: torn})
			// drive the server so that the armed mutation is reached
			thenFlush := rapid.Bool().Draw(t, "thenFlush")
			m.exec(genWrite(t))
			if thenFlush && m.srv.Alive() {
				m.exec(Op{Kind: "flush"})
			}
			m.exec(Op{Kind: "disarm"})
		},
		"killNow":      func(t *rapid.T) { m.exec(Op{Kind: "kill"}) },
		"cleanRestart": func(t *rapid.T) { m.exec(Op{Kind: "restart"}) },
		"restartArmed": func(t *rapid.T) {
			if m.unflushed == 0 {
				t.Skip("nothing to replay")
			}
			k := rapid.IntRange(1, 30).Draw(t, "k")
			pat := rapid.SampledFrom([]string{`\.wal`, `\.tssp`, `/data/`, `.`}).Draw(t, "pattern")
			m.exec(Op{Kind: "restartArmed", Arm: pat, K: k})
		},
		"dropMeasurement": func(t *rapid.T) {
			mst := rapid.SampledFrom(msts).Draw(t, "mst")
			must, _ := m.st.Measurements()
			if !must[mst] {
				t.Skip("measurement not present")
			}
			m.exec(Op{Kind: "drop", Mst: mst})
		},
	}
	t.Repeat(actions)
	m.finish()
}

func summarize(ops []any) []string {
	var out []string
	for _, o := range ops {
		op := o.(Op)
		s := op.Kind
		switch op.Kind {
		case "write":
			s += fmt.Sprintf("(%d pts)", len(op.Points))
		case "arm", "restartArmed":
			s += fmt.Sprintf("(%s,k=%d,torn=%d)", op.Arm, op.K, op.Torn)
		case "crashed":
			s += "[" + op.Note + "]"
		case "drop":
			s += "(" + op.Mst + ")"
		}
		out = append(out, s)
	}
	return out
}

func TestCrashHistories(t *testing.T) {
	rapid.Check(t, ev.Prop(prop, "crash_histories", runHistory))
}

// ---------------------------------------------------------------- replay of a recorded history

type histCase struct {
	Kind       string `json:"kind"`
	Partitions int    `json:"partitions"`
	Family     string `json:"family"`
	K          int    `json:"k"`
	Attempts   int    `json:"attempts"` // schedule-dependent histories: repeat until the failure shows (default 1)
}

type violation struct{ msg string }

func replayHistory(partitions int, ops []Op) (err error) {
	c := ev.Begin("replay")
	var m *machine
	defer func() {
		if m != nil {
			m.srv.Destroy()
		}
		if r := recover(); r != nil {
			if v, ok := r.(violation); ok {
				err = fmt.Errorf("%s | executed: %s", v.msg, strings.Join(summarize(c.Ops()), " "))
				return
			}
			panic(r)
		}
	}()
	m = newMachine(c, partitions, func(format string, a ...any) { panic(violation{fmt.Sprintf(format, a...)}) })
	m.strict = true
	for _, op := range ops {
		if !m.srv.Alive() {
			m.recover("crash")
		}
		m.exec(op)
	}
	m.finish()
	return nil
}

func TestReplay(t *testing.T) {
	ev.RunReplays(func(raw json.RawMessage, f ev.Failure) error {
		var hc histCase
		_ = json.Unmarshal(raw, &hc)
		if hc.Kind == "enum" {
			for _, f := range families() {
				if f.name == hc.Family {
					if hc.K == 0 {
						_, err := profile(f)
						return err
					}
					_, err := runK(f, hc.K)
					return err
				}
			}
			return ev.InconclusiveError("unknown family " + hc.Family)
		}
		if hc.Partitions == 0 {
			hc.Partitions = 16
		}
		b, _ := json.Marshal(f.Ops)
		var ops []Op
		if err := json.Unmarshal(b, &ops); err != nil {
			return ev.InconclusiveError(err.Error())
		}
		var err error
		for i := 0; i < max(1, hc.Attempts); i++ {
			if err = replayHistory(hc.Partitions, ops); err != nil {
				return err
			}
		}
		return err
	})
}
