from campaigns_util import B

SPEC = {
    "pkg": "props/c08", "level": "exploration", "bins": ["ts-server"],
    "rule": ("per case two real servers (ptnum-pernode 1 and 4, max-rows-per-segment 8) are fed the same generated data (6 series with/without a second tag, four field "
             "types, small value domain so extremes tie, gaps, late data) in three layout phases (memtable; flushed + late data; after merge/compaction); queries "
             "from a grammar over the core subset (ladder: raw selections incl. limit/offset -> overwrite_layers (the same cells rewritten in an ordered file, 1-2 out-of-order files and the memtable, queried raw / aggregated / bucketed in both directions) -> LIMIT/OFFSET windows over dense series spread over several flushed generations -> aggregates overall / per tag group -> time buckets with fill) run "
             "under 2-4 generated configurations (server x inner_chunk_size {1,2,3,7,1024} x chunked/chunk_size {1,2,7} x chunk_reader_parallel {1,2,8}). Oracle: "
             "every answer must be admissible for the reference evaluator internal/qref over the last-write-wins model (choices the language leaves open are sets), and "
             "answers with no open choice must be identical across configurations. Non-trivial: >= 2 result rows and (>= 2 series merge into one group or a group has "
             "more rows than some chunk size in play); distinct by (set of query shapes, op list)"),
    "assumptions": ["reference semantics pinned by probes of the pinned build (DESIGN.md C08): epoch-aligned buckets, selector timestamps, fill per column, absent tag = ''",
                    "count over an empty bucket under fill(null)/default is accepted as null or 0",
                    "rows whose selected fields are all null but which pass a field predicate may be present or absent"],
    "campaigns": [
        {"name": "raw_selections", "run": "^TestRawSelections$", "quick": B(3, 4, 900, shrinktime="60s"), "thorough": B(12, 5, 3400, shrinktime="180s")},
        {"name": "limit_layouts", "run": "^TestLimitLayouts$", "quick": B(4, 4, 900, shrinktime="60s"), "thorough": B(12, 5, 3400, shrinktime="180s")},
        {"name": "overwrite_layers", "run": "^TestOverwriteLayers$", "quick": B(4, 4, 900, shrinktime="60s"), "thorough": B(12, 5, 3400, shrinktime="180s")},
        {"name": "aggregates", "run": "^TestAggregates$", "quick": B(3, 4, 900, shrinktime="60s"), "thorough": B(12, 5, 3400, shrinktime="180s")},
        {"name": "time_buckets", "run": "^TestTimeBuckets$", "quick": B(3, 4, 900, shrinktime="60s"), "thorough": B(12, 5, 3400, shrinktime="180s")},
    ],
}

META = {
    "engine": "bb-server",
    "technique": "differential PBT against a reference evaluator plus metamorphic relation across execution configurations (rapid, real server)",
    "text": ("Generated data and queries of the core language subset; every answer from the real query path (two partition counts, several batch/chunk/parallelism "
             "settings, three storage layouts) is compared with an independent evaluator over the logical contents. Exploration of the generated subset only."),
    "note": "Trusts internal/qref (semantics pinned by probes, admissible sets where the language leaves a choice) and the last-write-wins model.",
}
