package c08

import (
	"encoding/json"
	"fmt"
	"os"
	"sort"
	"strings"
	"testing"

	"pgregory.net/rapid"
	"verif/internal/bb"
	"verif/internal/ev"
	"verif/internal/hist"
	"verif/internal/qref"
)

const prop = "C08"

func TestMain(m *testing.M) {
	code := m.Run()
	ev.Flush()
	bb.CleanupAll()
	os.Exit(code)
}

var tagSets = []map[string]string{{"host": "a"}, {"host": "b"}, {"host": "c"}, {"host": "a", "dc": "x"}, {"host": "b", "dc": "y"}, {"host": "web1", "dc": "x"}}

const mst = "m0"

// Config is one execution configuration of a query.
type Config struct {
	Server     int `json:"server"` // 0: ptnum-pernode 1, 1: ptnum-pernode 4
	InnerChunk int `json:"inner_chunk_size,omitempty"`
	ChunkSize  int `json:"chunk_size,omitempty"` // >0: chunked=true&chunk_size=
	Parallel   int `json:"chunk_reader_parallel,omitempty"`
}

func (c Config) params() map[string]string {
	p := map[string]string{}
	if c.InnerChunk > 0 {
		p["inner_chunk_size"] = fmt.Sprint(c.InnerChunk)
	}
	if c.ChunkSize > 0 {
		p["chunked"] = "true"
		p["chunk_size"] = fmt.Sprint(c.ChunkSize)
	}
	return p
}

type Op struct {
	Kind    string        `json:"op"` // write flush reorg query
	Points  []hist.PointJ `json:"points,omitempty"`
	Cmd     string        `json:"cmd,omitempty"`
	Query   *qref.Query   `json:"query,omitempty"`
	Configs []Config      `json:"configs,omitempty"`
}

type world struct {
	hs   [2]*hist.H
	c    *ev.Case
	fail func(format string, a ...any)
	par  [2]int
}

func newWorld(c *ev.Case, fail func(format string, a ...any)) *world {
	w := &world{c: c, fail: fail}
	for i, pt := range []string{"1", "4"} {
		cc := c
		if i == 1 {
			cc = ev.Begin("aux") // only the first history records ops
		}
		h := hist.New(cc, 8, map[string]string{"ptnum-pernode": pt, "max-rows-per-segment": "8"}, fail)
		w.hs[i] = h
	}
	return w
}

// hist.New uses bb.Options{Prop, Knobs} with Instance 0: the second server needs its own address
func init() { hist.InstanceCounter = true }

func (w *world) close() {
	for _, h := range w.hs {
		if h != nil {
			h.Close()
		}
	}
}

func canon(series []bb.Series, multiset bool) string {
	type s struct {
		Key  string
		Cols []string
		Rows []string
	}
	var out []s
	for _, se := range series {
		x := s{Key: tagStr(se.Tags), Cols: se.Columns}
		for _, v := range se.Values {
			b, _ := json.Marshal(v)
			x.Rows = append(x.Rows, string(b))
		}
		if multiset {
			sort.Strings(x.Rows)
		} else {
			// rows of equal time inside one group come from different series: their order is unspecified
			for a := 0; a < len(se.Values); {
				b := a
				for b < len(se.Values) && fmt.Sprint(se.Values[b][0]) == fmt.Sprint(se.Values[a][0]) {
					b++
				}
				sort.Strings(x.Rows[a:b])
				a = b
			}
		}
		out = append(out, x)
	}
	sort.Slice(out, func(i, j int) bool { return out[i].Key < out[j].Key })
	b, _ := json.Marshal(out)
	return string(b)
}

func tagStr(m map[string]string) string {
	ks := make([]string, 0, len(m))
	for k, v := range m {
		if v != "" {
			ks = append(ks, k+"="+v)
		}
	}
	sort.Strings(ks)
	return strings.Join(ks, ",")
}

func hasChoice(e qref.Expected) bool {
	for _, s := range e.Series {
		for _, r := range s.Rows {
			if len(r.Times) > 1 {
				return true
			}
			for _, c := range r.Cells {
				if len(c.Alts) > 1 {
					return true
				}
			}
		}
	}
	for _, s := range e.Series {
		for _, r := range s.Rows {
			for _, c := range r.Cells {
				if c.Any {
					return true
				}
			}
		}
	}
	return e.Window
}

func (w *world) exec(op Op) {
	w.c.Op(op)
	switch op.Kind {
	case "write":
		for _, h := range w.hs {
			h.Write(op.Points)
		}
	case "flush":
		for _, h := range w.hs {
			h.Flush()
		}
	case "reorg":
		for _, h := range w.hs {
			h.Reorg(op.Cmd)
		}
	case "query":
		q := *op.Query
		rows := qref.RowsFromStore(w.hs[0].St, mst)
		exp := qref.Eval(q, rows, hist.FieldNames)
		var first string
		var firstCfg Config
		for i, cfg := range op.Configs {
			h := w.hs[cfg.Server]
			if cfg.Parallel > 0 && w.par[cfg.Server] != cfg.Parallel {
				st, body := h.Srv.Ctrl("chunk_reader_parallel", map[string]string{"limit": fmt.Sprint(cfg.Parallel)})
				if st != 200 && st != 204 {
					bb.Fatal("ctrl chunk_reader_parallel failed: %d %s", st, body)
				}
				w.par[cfg.Server] = cfg.Parallel
			}
			res, err := h.Srv.Query(h.DB, q.SQL(), cfg.params())
			if err != nil {
				bb.Fatal("query transport error: %v", err)
			}
			if res.Err != "" {
				w.fail("query %q under %+v failed: %s", q.SQL(), cfg, res.Err)
			}
			var series []bb.Series
			if len(res.Results) > 0 {
				series = res.Results[0].Series
			}
			if d := qref.Compare(exp, series); d != "" {
				o, u, lv := h.Layout()
				w.fail("query %q under %+v: answer differs from the documented semantics over the logical contents: %s [files ordered=%d unordered=%d maxlevel=%d] raw=%.600s", q.SQL(), cfg, d, o, u, lv, res.Raw)
			}
			if !hasChoice(exp) {
				cn := canon(series, exp.Multiset)
				if i == 0 {
					first, firstCfg = cn, cfg
				} else if cn != first {
					w.fail("query %q: answer under %+v differs from the answer under %+v:\n%s\nvs\n%s", q.SQL(), cfg, firstCfg, cn, first)
				}
			}
		}
	default:
		bb.Fatal("unknown op %q", op.Kind)
	}
}

// ---------------------------------------------------------------- generators

type gen struct {
	counter     int
	noOverwrite bool // never write a (series,time) in two different requests
	request     int
	written     map[string]int // (series,time) -> request number
}

func (g *gen) batch(t *rapid.T, n int, late bool) []hist.PointJ {
	g.request++
	ps := make([]hist.PointJ, n)
	for i := range ps {
		p := hist.PointJ{Mst: mst, Tags: rapid.SampledFrom(tagSets).Draw(t, "tags"), Fields: map[string]string{}}
		if late {
			p.T = rapid.IntRange(0, 15).Draw(t, "tlate")
		} else {
			p.T = rapid.IntRange(0, 47).Draw(t, "t")
		}
		if g.noOverwrite {
			// move to a free time slot of this series (or one used by this same request)
			for k := 0; k < 48; k++ {
				key := fmt.Sprintf("%v|%d", p.Tags, p.T)
				if r, ok := g.written[key]; !ok || r == g.request {
					break
				}
				p.T = (p.T + 1) % 48
			}
			g.written[fmt.Sprintf("%v|%d", p.Tags, p.T)] = g.request
		}
		mask := rapid.IntRange(1, 15).Draw(t, "fieldmask")
		for j, n := range hist.FieldNames {
			if mask&(1<<j) == 0 {
				continue
			}
			g.counter++
			small := rapid.IntRange(-4, 12).Draw(t, "val") // small domain: equal values and extremes tie
			switch n {
			case "i":
				p.Fields[n] = fmt.Sprint(small)
			case "f":
				p.Fields[n] = fmt.Sprintf("%g", float64(small)/4)
			case "s":
				p.Fields[n] = fmt.Sprintf("v%d", small)
			default:
				p.Fields[n] = fmt.Sprint(small%2 == 0)
			}
		}
		ps[i] = p
	}
	return ps
}

func genTimeBounds(t *rapid.T, q *qref.Query, need bool) {
	k := rapid.IntRange(0, 5).Draw(t, "range")
	if need && k == 0 {
		k = 1
	}
	switch k {
	case 0:
	case 1:
		q.HasTMin, q.HasTMax = true, true
		q.TMin, q.TMax = hist.TS(0)-3e9, hist.TS(47)+3e9
	default:
		a := rapid.IntRange(0, 47).Draw(t, "ra")
		b := rapid.IntRange(a, 47).Draw(t, "rb")
		q.TMin = hist.TS(a) + int64(rapid.IntRange(-1, 1).Draw(t, "da"))
		q.TMax = hist.TS(b) + int64(rapid.IntRange(-1, 1).Draw(t, "db"))
		q.HasTMin = true
		q.HasTMax = need || rapid.IntRange(0, 3).Draw(t, "hasmax") > 0
	}
}

func genTagPred(t *rapid.T) *qref.TagPred {
	if rapid.IntRange(0, 2).Draw(t, "tagp") != 0 {
		return nil
	}
	atom := func() qref.TagAtom {
		switch rapid.IntRange(0, 5).Draw(t, "ta") {
		case 0:
			return qref.TagAtom{Key: "host", Op: "=", Val: rapid.SampledFrom([]string{"a", "b", "web1", "zz"}).Draw(t, "hv")}
		case 1:
			return qref.TagAtom{Key: "host", Op: "!=", Val: rapid.SampledFrom([]string{"a", "b", "c"}).Draw(t, "hv")}
		case 2:
			return qref.TagAtom{Key: "dc", Op: rapid.SampledFrom([]string{"=", "!="}).Draw(t, "dop"), Val: rapid.SampledFrom([]string{"x", "y", ""}).Draw(t, "dv")}
		case 3:
			// fully anchored or literal regular expressions (unanchored non-literal ones: see C10)
			return qref.TagAtom{Key: "host", Op: rapid.SampledFrom([]string{"=~", "!~"}).Draw(t, "rop"), Val: rapid.SampledFrom([]string{"^a$", "^(a|b)$", "^web1$", "^c$"}).Draw(t, "re")}
		case 4:
			return qref.TagAtom{Key: "dc", Op: "=~", Val: rapid.SampledFrom([]string{"^x$", "^(x|y)$"}).Draw(t, "re")}
		default:
			return qref.TagAtom{Key: "host", Op: "=", Val: "a"}
		}
	}
	p := &qref.TagPred{Atoms: []qref.TagAtom{atom()}}
	if rapid.IntRange(0, 2).Draw(t, "tag2") == 0 {
		p.Atoms = append(p.Atoms, atom())
		p.Or = rapid.Bool().Draw(t, "tagor")
	}
	return p
}

func genFieldPred(t *rapid.T, allowNe bool) *qref.FieldPred {
	if rapid.IntRange(0, 2).Draw(t, "fieldp") != 0 {
		return nil
	}
	atom := func() qref.FieldAtom {
		ops := []string{"=", "<", "<=", ">", ">="}
		if allowNe {
			ops = append(ops, "!=")
		}
		switch rapid.IntRange(0, 3).Draw(t, "fa") {
		case 0:
			return qref.FieldAtom{Field: "i", Op: rapid.SampledFrom(ops).Draw(t, "op"), Lit: fmt.Sprint(rapid.IntRange(-5, 13).Draw(t, "iv"))}
		case 1:
			return qref.FieldAtom{Field: "f", Op: rapid.SampledFrom(ops).Draw(t, "op"), Lit: fmt.Sprintf("%.2f", float64(rapid.IntRange(-20, 52).Draw(t, "fv"))/4)}
		case 2:
			return qref.FieldAtom{Field: "s", Op: "=", Lit: fmt.Sprintf("'v%d'", rapid.IntRange(-4, 12).Draw(t, "sv"))}
		default:
			return qref.FieldAtom{Field: "b", Op: "=", Lit: rapid.SampledFrom([]string{"true", "false"}).Draw(t, "bv")}
		}
	}
	p := &qref.FieldPred{Atoms: []qref.FieldAtom{atom()}}
	if rapid.IntRange(0, 2).Draw(t, "f2") == 0 {
		p.Atoms = append(p.Atoms, atom())
		p.Or = rapid.Bool().Draw(t, "fieldor")
	}
	return p
}

func genQuery(t *rapid.T, mode string, mustExact bool) (q qref.Query) {
	// (named result: the deferred function below must modify the value that is returned)
	q = qref.Query{Mst: mst}
	defer func() {
		// Aggregates without field filter and time bucket may be served from stored statistics, which the
		// statement (C09) only promises to be exact when no (series,time) was written in more than one flush
		// generation, or when the exact-statistics hint is given.
		if q.IsAgg() && q.Interval == 0 && q.Field == nil {
			q.Exact = mustExact || rapid.IntRange(0, 3).Draw(t, "hint") == 0
		}
	}()
	switch mode {
	case "limit":
		// LIMIT/OFFSET push-down: ungrouped raw selections over dense series spread over several files, time bounds on and
		// next to stored rows, both directions
		genTimeBounds(t, &q, false)
		if rapid.Bool().Draw(t, "star") {
			q.Star = true
		} else {
			mask := rapid.IntRange(1, 15).Draw(t, "selmask")
			for i, n := range hist.FieldNames {
				if mask&(1<<i) != 0 {
					q.Sel = append(q.Sel, qref.Call{Field: n})
				}
			}
		}
		if rapid.IntRange(0, 3).Draw(t, "tagp1") == 0 {
			q.Tag = &qref.TagPred{Atoms: []qref.TagAtom{{Key: "host", Op: rapid.SampledFrom([]string{"=", "!="}).Draw(t, "hop"), Val: rapid.SampledFrom([]string{"a", "b"}).Draw(t, "hv")}}}
		}
		q.Desc = rapid.IntRange(0, 2).Draw(t, "desc") == 0
		q.Limit = rapid.IntRange(1, 9).Draw(t, "limit")
		q.Offset = rapid.IntRange(0, 6).Draw(t, "offset")
		// (OFFSET without LIMIT is documented as unsupported - "requires a LIMIT clause" - and is not generated)
	case "raw":
		genTimeBounds(t, &q, false)
		if rapid.IntRange(0, 3).Draw(t, "star") == 0 {
			q.Star = true
		} else {
			mask := rapid.IntRange(1, 15).Draw(t, "selmask")
			for i, n := range hist.FieldNames {
				if mask&(1<<i) != 0 {
					q.Sel = append(q.Sel, qref.Call{Field: n})
				}
			}
		}
		q.Tag = genTagPred(t)
		q.Field = genFieldPred(t, true)
		switch rapid.IntRange(0, 3).Draw(t, "grouping") {
		case 0:
			q.GroupAll = true
		case 1:
			if !q.Star {
				q.GroupBy = rapid.SampledFrom([][]string{{"host"}, {"dc"}, {"host", "dc"}}).Draw(t, "gb")
			}
		}
		q.Desc = rapid.IntRange(0, 2).Draw(t, "desc") == 0
		if !q.GroupAll && len(q.GroupBy) == 0 && rapid.IntRange(0, 2).Draw(t, "lim") == 0 {
			// limit/offset only on ungrouped selections whose row set is definite
			neq := false
			if q.Field != nil {
				for _, a := range q.Field.Atoms {
					if a.Op == "!=" {
						neq = true
					}
				}
			}
			if q.Field == nil || !neq {
				// rows with all selected fields null are optional under a field predicate: avoid by selecting *
				if q.Field != nil {
					q.Star, q.Sel = true, nil
				}
				q.Limit = rapid.IntRange(1, 9).Draw(t, "limit")
				q.Offset = rapid.IntRange(0, 6).Draw(t, "offset")
			}
		}
	case "agg", "bucket":
		genTimeBounds(t, &q, mode == "bucket")
		n := rapid.IntRange(1, 3).Draw(t, "ncalls")
		for i := 0; i < n; i++ {
			f := rapid.SampledFrom(hist.FieldNames).Draw(t, "aggfield")
			fns := []string{"count", "first", "last"}
			if f == "i" || f == "f" {
				fns = []string{"count", "sum", "mean", "min", "max", "first", "last"}
			}
			q.Sel = append(q.Sel, qref.Call{Func: rapid.SampledFrom(fns).Draw(t, "fn"), Field: f})
		}
		q.Tag = genTagPred(t)
		q.Field = genFieldPred(t, false)
		switch rapid.IntRange(0, 3).Draw(t, "grouping") {
		case 0:
			q.GroupAll = true
		case 1:
			q.GroupBy = rapid.SampledFrom([][]string{{"host"}, {"dc"}, {"host", "dc"}}).Draw(t, "gb")
		}
		q.Desc = rapid.IntRange(0, 2).Draw(t, "desc") == 0
		if mode == "bucket" {
			q.Interval = rapid.SampledFrom([]int64{1e9, 2e9, 5e9, 7e9, 16e9, 60e9}).Draw(t, "interval")
			q.Fill = rapid.SampledFrom([]string{"", "", "none", "null", "previous", "0", "9", "-2.5"}).Draw(t, "fill")
		}
	}
	return q
}

func genConfigs(t *rapid.T) []Config {
	n := rapid.IntRange(2, 4).Draw(t, "nconf")
	cs := make([]Config, n)
	for i := range cs {
		cs[i] = Config{
			Server:     rapid.IntRange(0, 1).Draw(t, "server"),
			InnerChunk: rapid.SampledFrom([]int{0, 1, 2, 3, 7, 1024}).Draw(t, "inner"),
			ChunkSize:  rapid.SampledFrom([]int{0, 0, 1, 2, 7}).Draw(t, "chunk"),
			Parallel:   rapid.SampledFrom([]int{0, 1, 2, 8}).Draw(t, "parallel"),
		}
	}
	cs[0].Server, cs[1].Server = 0, 1
	return cs
}

func runCase(mode string) func(t *rapid.T, c *ev.Case) {
	return func(t *rapid.T, c *ev.Case) {
		w := newWorld(c, func(format string, a ...any) {
			c.Failf(t, prop, map[string]any{"kind": "history"}, format, a...)
		})
		defer w.close()
		g := &gen{written: map[string]int{}}
		g.noOverwrite = rapid.Bool().Draw(t, "noOverwrite")
		if g.noOverwrite {
			c.Class("history-without-cross-request-overwrites")
		}
		nt := map[string]bool{}
		queries := func(t *rapid.T, n int) {
			for i := 0; i < n; i++ {
				qmode := mode
				if mode == "layers" {
					qmode = rapid.SampledFrom([]string{"agg", "bucket", "bucket", "raw"}).Draw(t, "qmode")
				}
				q := genQuery(t, qmode, !g.noOverwrite)
				if mode == "layers" && !q.Desc && q.Limit == 0 && q.Offset == 0 && rapid.IntRange(0, 2).Draw(t, "moreDesc") == 0 {
					q.Desc = true // the layer-folding cursors have separate ascending and descending paths: about half of the reads go down
				}
				if q.Fill == "previous" && q.Desc {
					// fill(previous) under ORDER BY time DESC fills in output order (as InfluxDB does): the statement's
					// "descending = ascending reversed" is not defined for it; left out, not a finding
					c.Excluded("unspecified:fill(previous)+desc")
					q.Desc = false
				}
				if q.Field != nil && !g.noOverwrite {
					// KNOWN FINDING C08-I: field predicates are evaluated on per-generation row fragments; histories in
					// which a (series,time) is written by several requests are searched without field predicates only
					c.Excluded("known:C08-I")
					q.Field = nil
					if q.IsAgg() && q.Interval == 0 {
						q.Exact = true
					}
				}
				cfgs := genConfigs(t)
				if id := knownClass(q, cfgs, layoutOf(w)); id != "" {
					c.Excluded("known:C08-" + id)
					continue
				}
				if q.Exact {
					c.Class("exact-hint")
				}
				w.exec(Op{Kind: "query", Query: &q, Configs: cfgs})
				// non-trivial: >= 2 result rows and (>= 2 series merged into a group, or rows per group > some chunk size)
				exp := qref.Eval(q, qref.RowsFromStore(w.hs[0].St, mst), hist.FieldNames)
				rows, maxg := 0, 0
				for _, s := range exp.Series {
					rows += len(s.Rows)
					maxg = max(maxg, len(s.Rows))
				}
				minChunk := 1 << 30
				for _, cf := range cfgs {
					if cf.InnerChunk > 0 {
						minChunk = min(minChunk, cf.InnerChunk)
					}
					if cf.ChunkSize > 0 {
						minChunk = min(minChunk, cf.ChunkSize)
					}
				}
				merged := !q.GroupAll
				if rows >= 2 && (merged || maxg > minChunk) {
					shape := shapeOf(q)
					nt[shape] = true
					c.Class("nontrivial-query")
					if maxg > minChunk {
						c.Class("group-spans-chunk-boundary")
					}
				}
				if rows == 0 {
					c.Class("empty-answer")
				}
				if q.Limit > 0 || q.Offset > 0 {
					c.Class("limit-offset")
				}
				if q.Fill != "" {
					c.Class("fill=" + q.Fill)
				}
				if q.Field != nil {
					c.Class("field-predicate")
				}
				if q.Tag != nil {
					c.Class("tag-predicate")
				}
				if q.Desc {
					c.Class("desc")
				}
			}
		}
		finish := func() {
			if len(nt) > 0 {
				keys := make([]string, 0, len(nt))
				for k := range nt {
					keys = append(keys, k)
				}
				sort.Strings(keys)
				c.Nontrivial(map[string]any{"shapes": keys, "ops": c.Ops()})
				var qs []string
				for _, o := range c.Ops() {
					if op, ok := o.(Op); ok && op.Kind == "query" && len(qs) < 8 {
						qs = append(qs, op.Query.SQL())
					}
				}
				c.Sample(map[string]any{"query_shapes": keys, "some_queries": qs})
			}
		}
		if mode == "layers" {
			// the same small set of cells rewritten layer by layer: ordered file <- out-of-order file(s) <- memtable, so that a read has to
			// fold an older out-of-order value under a newer one (aggregate cursors fold file by file, ascending and descending)
			g.noOverwrite = false
			// (tagSets[3] carries the tag dc: a predicate on a key that is no tag of the measurement at all is not part of the core
			// subset - the identifier then denotes a field - so at least one series with every generated key always exists)
			lser := append([]map[string]string{tagSets[3]}, tagSets[:rapid.IntRange(1, 3).Draw(t, "nser")]...)
			nser := len(lser)
			span := rapid.IntRange(6, 16).Draw(t, "span")
			onlySeries := -1 // >= 0: the next layer writes this series only
			layer := func(label string, from, to, density int) []hist.PointJ {
				g.request++
				var ps []hist.PointJ
				for s := 0; s < nser; s++ {
					if onlySeries >= 0 && s != onlySeries {
						continue
					}
					for k := from; k < to; k++ {
						if rapid.IntRange(0, 9).Draw(t, label+"skip") >= density && !(label == "base" && k == from) {
							continue // (the first cell of every series is always written in the base layer: every series and tag key exists)
						}
						p := hist.PointJ{Mst: mst, Tags: lser[s], T: k, Fields: map[string]string{}}
						mask := rapid.SampledFrom([]int{15, 15, 4, 2, 6, 12, 1, 8}).Draw(t, "fieldmask")
						for j, fn := range hist.FieldNames {
							if mask&(1<<j) == 0 {
								continue
							}
							small := rapid.IntRange(-4, 12).Draw(t, "val")
							switch fn {
							case "i":
								p.Fields[fn] = fmt.Sprint(small)
							case "f":
								p.Fields[fn] = fmt.Sprintf("%g", float64(small)/4)
							case "s":
								p.Fields[fn] = fmt.Sprintf("v%d", small)
							default:
								p.Fields[fn] = fmt.Sprint(small%2 == 0)
							}
						}
						ps = append(ps, p)
					}
				}
				return ps
			}
			put := func(ps []hist.PointJ, flush bool, cls string) {
				if len(ps) == 0 {
					return
				}
				w.exec(Op{Kind: "write", Points: ps})
				if flush {
					w.exec(Op{Kind: "flush"})
				}
				c.Class(cls)
			}
			// ordered file: the upper part of the span (and sometimes everything)
			lo := rapid.IntRange(0, span/2).Draw(t, "orderedFrom")
			if nser >= 2 && rapid.IntRange(0, 2).Draw(t, "staggered") > 0 {
				// series progress at different speeds: one series stops early in the first ordered file (whose time range, set by the
				// other series, reaches further) and continues in a second ORDERED file; the rewrites below then fall after its chunk
				// of the first file, inside the first file's range and inside its range in the second file
				short := rapid.IntRange(0, nser-1).Draw(t, "shortSeries")
				cut := rapid.IntRange(lo+1, span).Draw(t, "shortUntil")
				onlySeries = -1
				var base []hist.PointJ
				for sidx := 0; sidx < nser; sidx++ {
					onlySeries = sidx
					hi := span + 4
					if sidx == short {
						hi = cut
					}
					base = append(base, layer("base", lo, hi, 8)...)
				}
				put(base, true, "layer:ordered-file")
				onlySeries = short
				put(layer("cont", cut, span+4, 9), true, "layer:second-ordered-file-continuing-one-series")
				onlySeries = -1
			} else {
				put(layer("base", lo, span+4, 8), true, "layer:ordered-file")
			}
			// 1-2 out-of-order files below / inside the flushed range
			for k := 0; k < rapid.IntRange(1, 2).Draw(t, "nooo"); k++ {
				put(layer("ooo", 0, span, 5), true, "layer:out-of-order-file")
			}
			// rewrites of the same cells that stay in the memtable
			if rapid.IntRange(0, 3).Draw(t, "mem") > 0 {
				put(layer("mem", 0, span, 4), false, "layer:memtable-over-out-of-order")
			}
			queries(t, rapid.IntRange(6, 10).Draw(t, "ql1"))
			if rapid.Bool().Draw(t, "more") {
				put(layer("ooo2", 0, span, 3), rapid.Bool().Draw(t, "flush2"), "layer:second-rewrite")
				queries(t, rapid.IntRange(3, 6).Draw(t, "ql2"))
			}
			if rapid.IntRange(0, 2).Draw(t, "reorg") == 0 {
				w.exec(Op{Kind: "flush"})
				w.exec(Op{Kind: "reorg", Cmd: rapid.SampledFrom([]string{"merge", "all"}).Draw(t, "cmd")})
				queries(t, rapid.IntRange(3, 5).Draw(t, "ql3"))
			}
			finish()
			return
		}
		if mode == "limit" {
			// dense series in several flushed generations (each generation continues where the previous one ended, per series),
			// so that a LIMIT window regularly starts inside one file and ends in a later one
			g.noOverwrite = true
			nser := rapid.IntRange(1, 3).Draw(t, "nser")
			cursor := 0
			ngen := rapid.IntRange(2, 4).Draw(t, "ngen")
			for gi := 0; gi < ngen && cursor < 44; gi++ {
				n := rapid.IntRange(2, min(12, 47-cursor)).Draw(t, "rows")
				g.request++
				var ps []hist.PointJ
				for s := 0; s < nser; s++ {
					if gi > 0 && nser > 1 && rapid.IntRange(0, 4).Draw(t, "skipser") == 0 {
						continue // (never in the first generation: every series exists before the first query - see seedAllSeries)
					}
					for k := 0; k < n; k++ {
						if rapid.IntRange(0, 7).Draw(t, "gap") == 0 {
							continue
						}
						p := hist.PointJ{Mst: mst, Tags: tagSets[s], T: cursor + k, Fields: map[string]string{}}
						mask := 15
						if rapid.IntRange(0, 3).Draw(t, "partial") == 0 {
							mask = rapid.IntRange(1, 15).Draw(t, "fieldmask")
						}
						for j, fn := range hist.FieldNames {
							if mask&(1<<j) == 0 {
								continue
							}
							small := rapid.IntRange(-4, 12).Draw(t, "val")
							switch fn {
							case "i":
								p.Fields[fn] = fmt.Sprint(small)
							case "f":
								p.Fields[fn] = fmt.Sprintf("%g", float64(small)/4)
							case "s":
								p.Fields[fn] = fmt.Sprintf("v%d", small)
							default:
								p.Fields[fn] = fmt.Sprint(small%2 == 0)
							}
						}
						g.written[fmt.Sprintf("%v|%d", p.Tags, p.T)] = g.request
						ps = append(ps, p)
					}
				}
				cursor += n
				if len(ps) == 0 {
					continue
				}
				w.exec(Op{Kind: "write", Points: ps})
				if gi < ngen-1 || rapid.Bool().Draw(t, "flushlast") {
					w.exec(Op{Kind: "flush"})
					c.Class("generation-flushed")
				} else {
					c.Class("last-generation-in-memtable")
				}
				if gi > 0 {
					queries(t, rapid.IntRange(2, 5).Draw(t, "qn"))
				}
			}
			if rapid.IntRange(0, 2).Draw(t, "late") == 0 {
				// out-of-order rows below the flushed data (free slots only)
				late := g.batch(t, rapid.IntRange(1, 5).Draw(t, "nlate"), true)
				for i := range late {
					late[i].Tags = tagSets[rapid.IntRange(0, nser-1).Draw(t, "lateSeries")] // existing series only
				}
				w.exec(Op{Kind: "write", Points: late})
				w.exec(Op{Kind: "flush"})
				c.Class("out-of-order-file")
				queries(t, rapid.IntRange(2, 4).Draw(t, "ql"))
			}
			if rapid.IntRange(0, 2).Draw(t, "reorg") == 0 {
				w.exec(Op{Kind: "reorg", Cmd: "all"})
				queries(t, rapid.IntRange(2, 4).Draw(t, "q3"))
			}
			finish()
			return
		}
		// every series exists (and is visible) before the first query: a tag predicate evaluated before a series was first
		// written may be answered from the index's tag-filter cache for some seconds afterwards - the visibility lag of new
		// series, which is not part of the property (found by a soak run: "host != 'a'" missed a series first written later)
		{
			g.request++
			var ps []hist.PointJ
			for si := range tagSets {
				p := hist.PointJ{Mst: mst, Tags: tagSets[si], T: rapid.IntRange(0, 47).Draw(t, "seedT"), Fields: map[string]string{}}
				small := rapid.IntRange(-4, 12).Draw(t, "seedVal")
				p.Fields["i"], p.Fields["f"], p.Fields["s"], p.Fields["b"] = fmt.Sprint(small), fmt.Sprintf("%g", float64(small)/4), fmt.Sprintf("v%d", small), fmt.Sprint(small%2 == 0)
				g.written[fmt.Sprintf("%v|%d", p.Tags, p.T)] = g.request
				ps = append(ps, p)
			}
			w.exec(Op{Kind: "write", Points: ps})
		}
		// phase 1: memtable only
		for i := 0; i < rapid.IntRange(1, 3).Draw(t, "w1"); i++ {
			w.exec(Op{Kind: "write", Points: g.batch(t, rapid.IntRange(4, 20).Draw(t, "n"), false)})
		}
		queries(t, rapid.IntRange(2, 6).Draw(t, "q1"))
		// phase 2: flushed + memtable + late data
		w.exec(Op{Kind: "flush"})
		for i := 0; i < rapid.IntRange(0, 3).Draw(t, "w2"); i++ {
			w.exec(Op{Kind: "write", Points: g.batch(t, rapid.IntRange(2, 12).Draw(t, "n"), rapid.Bool().Draw(t, "late"))})
			if rapid.Bool().Draw(t, "flushagain") {
				w.exec(Op{Kind: "flush"})
			}
		}
		queries(t, rapid.IntRange(2, 6).Draw(t, "q2"))
		// phase 3: after merge / compaction
		if rapid.Bool().Draw(t, "reorg") {
			w.exec(Op{Kind: "flush"})
			w.exec(Op{Kind: "reorg", Cmd: "all"})
			queries(t, rapid.IntRange(2, 5).Draw(t, "q3"))
		}
		finish()
	}
}

func shapeOf(q qref.Query) string {
	var fns []string
	for _, c := range q.Sel {
		fns = append(fns, c.Func)
	}
	return fmt.Sprintf("sel=%v star=%v tmin=%v tmax=%v tag=%v field=%v groupall=%v groupby=%v interval=%v fill=%s desc=%v lim=%v", fns, q.Star, q.HasTMin, q.HasTMax, q.Tag != nil, q.Field != nil, q.GroupAll, q.GroupBy, q.Interval > 0, q.Fill, q.Desc, q.Limit > 0 || q.Offset > 0)
}

func TestRawSelections(t *testing.T) { rapid.Check(t, ev.Prop(prop, "raw_selections", runCase("raw"))) }
func TestAggregates(t *testing.T)    { rapid.Check(t, ev.Prop(prop, "aggregates", runCase("agg"))) }
func TestOverwriteLayers(t *testing.T) {
	rapid.Check(t, ev.Prop(prop, "overwrite_layers", runCase("layers")))
}
func TestLimitLayouts(t *testing.T) { rapid.Check(t, ev.Prop(prop, "limit_layouts", runCase("limit"))) }
func TestTimeBuckets(t *testing.T)  { rapid.Check(t, ev.Prop(prop, "time_buckets", runCase("bucket"))) }

type violation struct{ msg string }

func TestReplay(t *testing.T) {
	ev.RunReplays(func(raw json.RawMessage, f ev.Failure) (err error) {
		b, _ := json.Marshal(f.Ops)
		var ops []Op
		if e := json.Unmarshal(b, &ops); e != nil {
			return ev.InconclusiveError(e.Error())
		}
		c := ev.Begin("replay")
		var w *world
		defer func() {
			if w != nil {
				w.close()
			}
			if r := recover(); r != nil {
				if v, ok := r.(violation); ok {
					err = fmt.Errorf("%s", v.msg)
					return
				}
				panic(r)
			}
		}()
		w = newWorld(c, func(format string, a ...any) { panic(violation{fmt.Sprintf(format, a...)}) })
		for _, op := range ops {
			if op.Kind == "start" || op.Kind == "" {
				continue
			}
			w.exec(op)
		}
		return nil
	})
}
