package c08

import (
	"fmt"
	"runtime"

	"verif/internal/model"
	"verif/internal/qref"
)

// Known-finding classes of C08 that are still open on the tree (from the triage of the first campaign; the classes
// A, B, C, F and G of that triage are fixed in /repo and searched in full again):
//   D  LIMIT/OFFSET on an ungrouped select * with few chunk readers prunes series by the file's time range
//   E  ORDER BY time DESC + GROUP BY time + fill + small inner_chunk_size: filled windows cover the wrong side
//   H  fill(previous): values leak between groups / cells of non-empty buckets are not filled
//   J  several calls incl. first()/last() over a group of several series: the answer depends on the partition count
//   B2 ORDER BY time DESC + first()/last(): the other end's value is returned outside the repaired series-level path
// knownClass returns "" or the class id; the predicates are the narrowest ones established by the triage and err on
// the side of excluding where the physical layout is not observable (silent cold flush).

// LRow is one logical row of the measurement with what the history knows about where it lives.
type LRow struct {
	qref.Row
	Flushed  bool // some cell of the row was written before the last explicit flush: surely in a file
	MaybeMem bool // some cell was written after the last explicit flush: memtable (or a file, after a cold flush)
}

// Layout is what the check knows about the physical state when the query runs.
type Layout struct {
	Rows      []LRow
	Ordered   int    // ordered tssp files (max over the two servers, summed over partitions)
	Unordered int    // out-of-order tssp files (max over the two servers)
	Par       [2]int // chunk_reader_parallel currently set on each server (0 = never set = NumCPU)
}

func layoutOf(w *world) Layout {
	l := Layout{Par: w.par}
	for _, h := range w.hs {
		o, u, _ := h.Layout()
		l.Ordered, l.Unordered = max(l.Ordered, o), max(l.Unordered, u)
	}
	h := w.hs[0]
	for _, r := range qref.RowsFromStore(h.St, mst) {
		lr := LRow{Row: r}
		key := model.SeriesKeyOf(mst, r.Tags)
		for f := range r.Fields {
			for g := range h.CellGens[fmt.Sprintf("%s|%d|%s", key, r.Time, f)] {
				if g < h.Gen {
					lr.Flushed = true
				} else {
					lr.MaybeMem = true
				}
			}
		}
		l.Rows = append(l.Rows, lr)
	}
	return l
}

func kcFloorDiv(a, b int64) int64 {
	d := a / b
	if a%b != 0 && (a < 0) != (b < 0) {
		d--
	}
	return d
}

func kcInRange(q qref.Query, t int64) bool {
	return (!q.HasTMin || t >= q.TMin) && (!q.HasTMax || t <= q.TMax)
}

// bucket of t (0 when the query has no time buckets)
func kcBucket(q qref.Query, t int64) int64 {
	if q.Interval == 0 {
		return 0
	}
	return kcFloorDiv(t, q.Interval)
}

func kcBuckets(q qref.Query) int64 {
	if q.Interval == 0 || !q.HasTMin || !q.HasTMax {
		return 1
	}
	return kcFloorDiv(q.TMax, q.Interval) - kcFloorDiv(q.TMin, q.Interval) + 1
}

func kcHasFirstLast(q qref.Query) bool {
	for _, c := range q.Sel {
		if c.Func == "first" || c.Func == "last" {
			return true
		}
	}
	return false
}

func kcGroupKey(q qref.Query, tags map[string]string) string {
	g := map[string]string{}
	if q.GroupAll {
		g = tags
	} else {
		for _, k := range q.GroupBy {
			g[k] = tags[k]
		}
	}
	return model.SeriesKeyOf("", g)
}

// inner chunk size in force under a configuration (the server default is 1024)
func kcInner(c Config) int64 {
	if c.InnerChunk > 0 {
		return int64(c.InnerChunk)
	}
	return 1024
}

func knownClass(q qref.Query, cfgs []Config, lay Layout) string {
	grouped := q.GroupAll || len(q.GroupBy) > 0
	agg := q.IsAgg()

	// fields the storage cursor reads: selected ones and those of the field predicate
	refFields := map[string]bool{}
	_ = refFields
	for _, c := range q.Sel {
		refFields[c.Field] = true
	}
	predOther := false
	_ = predOther // the field predicate mentions a field that is not (the only) aggregated one
	if q.Field != nil {
		for _, a := range q.Field.Atoms {
			refFields[a.Field] = true
			if len(q.Sel) > 0 && a.Field != q.Sel[0].Field {
				predOther = true
			}
		}
	}

	// ---- D: select * ... limit/offset, no field predicate, ungrouped, time bound on the side the scan starts
	// from, a series with a (possibly flushed) row beyond that bound, and so few chunk readers that one reader
	// owns more than limit+offset series (engine/tsm_merge_cursor.go:176, engine/iterators.go:992)
	if !agg && q.Star && q.Field == nil && !grouped && (q.Limit > 0 || q.Offset > 0) &&
		((!q.Desc && q.HasTMin) || (q.Desc && q.HasTMax)) {
		series := map[string]bool{}
		beyond := false
		for _, r := range lay.Rows {
			if !q.Tag.Match(r.Tags) {
				continue
			}
			series[model.SeriesKeyOf("", r.Tags)] = true
			if (!q.Desc && r.Time < q.TMin) || (q.Desc && r.Time > q.TMax) {
				beyond = true
			}
		}
		if beyond {
			par := lay.Par
			for _, c := range cfgs {
				if c.Parallel > 0 {
					par[c.Server] = c.Parallel
				}
				p := par[c.Server]
				if p == 0 {
					p = runtime.NumCPU()
				}
				if (len(series)+p-1)/p > q.Limit+q.Offset {
					return "D"
				}
			}
		}
	}

	// ---- E: ORDER BY time DESC + GROUP BY time + a fill mode other than none + inner chunk c >= 2 with more
	// than c buckets (exactly: > 2c for one group; several groups share one input chunk, hence > c)
	// (engine/executor/fill_transform.go:489)
	if agg && q.Desc && q.Interval > 0 && q.Fill != "none" {
		for _, c := range cfgs {
			if ic := kcInner(c); ic >= 2 && kcBuckets(q) > ic {
				return "E"
			}
		}
	}

	// ---- H: fill(previous) (with or without tag grouping, any inner chunk size): empty cells are filled from the previous
	// group, or not filled at all when the bucket is non-empty for another column (C09 replays fill_previous_*)
	if agg && q.Interval > 0 && q.Fill == "previous" {
		return "H"
	}

	// ---- B2: ORDER BY time DESC + first/last outside time buckets and field filters (grouped or not): the statistics /
	// tag-set path still returns the value of the other end (the series-level reducers were fixed, class B)
	if agg && q.Desc && kcHasFirstLast(q) {
		return "B2"
	}

	// ---- K (finding C09-multicall-last-across-memtable-and-file): >= 2 calls on different fields incl. first/last, served from
	// statistics (no hint, filter, bucket): with rows in the memtable and in files the file's first/last value is kept
	if agg && kcHasFirstLast(q) && !q.Exact && q.Interval == 0 && q.Field == nil {
		fields := map[string]bool{}
		for _, c := range q.Sel {
			fields[c.Field] = true
		}
		if len(fields) >= 2 {
			return "K"
		}
	}

	// ---- J: >= 2 distinct calls one of which is first/last + a group that merges several series (not GROUP BY *): with
	// several partitions the partial results are merged without their point times and the value of the wrong series is kept
	if agg && kcHasFirstLast(q) && !q.GroupAll {
		distinct := map[qref.Call]bool{}
		for _, c := range q.Sel {
			distinct[c] = true
		}
		if len(distinct) >= 2 {
			return "J"
		}
	}
	return ""
}

