package c08

import (
	"encoding/json"
	"fmt"
	"os"
	"strings"
	"testing"

	"verif/internal/ev"
	"verif/internal/hist"
	"verif/internal/qref"
)

// TestDebug (manual aid): VERIF_DEBUG_FILE=<failure.json> replays the history and prints, for the last query,
// the model rows, the expected answer and the raw server answers under each configuration.
func TestDebug(t *testing.T) {
	f := os.Getenv("VERIF_DEBUG_FILE")
	if f == "" {
		t.Skip()
	}
	b, _ := os.ReadFile(f)
	var fl struct {
		Ops []Op `json:"ops"`
	}
	if err := json.Unmarshal(b, &fl); err != nil {
		t.Fatal(err)
	}
	c := ev.Begin("debug")
	w := newWorld(c, func(format string, a ...any) { fmt.Printf("FAIL: "+format+"\n", a...) })
	defer w.close()
	for i, op := range fl.Ops {
		if op.Kind == "start" || op.Kind == "" {
			continue
		}
		if op.Kind == "query" && i == len(fl.Ops)-1 {
			q := *op.Query
			fmt.Println("QUERY:", q.SQL())
			rows := qref.RowsFromStore(w.hs[0].St, mst)
			for _, r := range rows {
				fmt.Printf("  row %v t=%d %v\n", r.Tags, (r.Time-hist.T0)/1e9, r.Fields)
			}
			exp := qref.Eval(q, rows, hist.FieldNames)
			for _, s := range exp.Series {
				fmt.Println(" EXP", s.Tags)
				for _, r := range s.Rows {
					fmt.Println("    ", r)
				}
			}
			for _, cfg := range append(op.Configs, Config{Server: 0}, Config{Server: 1}) {
				res, err := w.hs[cfg.Server].Srv.Query("db0", q.SQL(), cfg.params())
				fmt.Printf(" CFG %+v err=%v\n   %s\n", cfg, err, res.Raw)
			}
			for _, extra := range strings.Split(os.Getenv("VERIF_DEBUG_QUERIES"), ";") {
				if strings.TrimSpace(extra) == "" {
					continue
				}
				for si := 0; si < 2; si++ {
					res, err := w.hs[si].Srv.Query("db0", extra, nil)
					fmt.Printf(" EXTRA server=%d %s err=%v\n   %s\n", si, extra, err, res.Raw)
				}
			}
			continue
		}
		w.exec(op)
	}
}
