package c19

// The route table is taken from the code under test: the handler is built in this process from the very
// configuration file the black-box server was started with, and its router is enumerated.
//
// Source 1 (preferred): hook H2 `func (h *Handler) VerifRoutes() [][2]string` (build tag verif, see H2_PROPOSED.go.txt).
// Source 2 (fallback while H2 is not committed): the handler's unexported gorilla router is read through reflect/unsafe
// and walked. Both give (method, path template) of every route registered through Handler.AddRoutes.
//
// Not part of the router: the three path prefixes that Handler.ServeHTTP dispatches before the router
// (/debug/pprof, /debug/vars, /debug/query). They cannot be enumerated from any table; they are listed in
// prefixRoutes below (kept in step with ServeHTTP by TestPrefixDispatchComplete, which probes the in-process handler).

import (
	"fmt"
	"net/http"
	"net/http/httptest"
	"reflect"
	"sort"
	"strings"
	"unsafe"

	"github.com/gorilla/mux"
	"github.com/openGemini/openGemini/app"
	sqlsrv "github.com/openGemini/openGemini/app/ts-sql/sql"
	"github.com/openGemini/openGemini/lib/config"
	"github.com/openGemini/openGemini/lib/errno"
	"github.com/openGemini/openGemini/lib/logger"
	"github.com/openGemini/openGemini/lib/util/lifted/influx/httpd"
	"github.com/openGemini/openGemini/services/runtimecfg"
)

type RouteInfo struct {
	Method  string `json:"method"`
	Pattern string `json:"pattern"`
	Source  string `json:"source"` // router | prefix | app
}

func (r RouteInfo) Key() string { return r.Method + " " + r.Pattern }

type h2 interface{ VerifRoutes() [][2]string }

// buildHandler builds the HTTP handler as ts-server does for the given configuration file: config parse -> product type ->
// the application's own constructor app/ts-sql/sql.NewServer (which calls httpd.NewService/NewHandler and then adds the
// routes the application registers itself); the handler is taken out of the (not opened) server object.
// Fallback when the server object cannot be built or has no such field: httpd.NewHandler(c.HTTP) plus a copy of the one
// registration app/ts-sql/sql/server.go does itself (/runtime_config).
func buildHandler(confPath string) (h *httpd.Handler, c *config.TSSql, how string, err error) {
	c = config.NewTSSql(false)
	if err := config.Parse(c, confPath); err != nil {
		return nil, nil, "", fmt.Errorf("parse %s: %v", confPath, err)
	}
	config.SetProductType(c.Common.ProductType)
	func() {
		defer func() {
			if r := recover(); r != nil {
				h, how = nil, fmt.Sprintf("sql.NewServer panicked: %v", r)
			}
		}()
		srv, e := sqlsrv.NewServer(c, app.ServerInfo{App: config.AppSingle}, logger.NewLogger(errno.ModuleHTTP))
		if e != nil {
			how = "sql.NewServer: " + e.Error()
			return
		}
		v := reflect.ValueOf(srv)
		if v.Kind() != reflect.Ptr || v.Elem().Kind() != reflect.Struct {
			how = "sql.NewServer returned " + v.Type().String()
			return
		}
		f := v.Elem().FieldByName("httpService")
		if !f.IsValid() || f.Type() != reflect.TypeOf((*httpd.Service)(nil)) || f.IsNil() {
			how = "sql.Server has no *httpd.Service field httpService"
			return
		}
		h = (*httpd.Service)(unsafe.Pointer(f.Pointer())).Handler
		how = "app/ts-sql/sql.NewServer"
	}()
	if h != nil {
		return h, c, how, nil
	}
	h = httpd.NewHandler(c.HTTP)
	if c.RuntimeConfig.Enabled {
		h.AddRoutes(httpd.Route{
			Name: "query-runtime-config", Method: "GET", Pattern: "/runtime_config", LoggingEnabled: true,
			HandlerFunc: runtimecfg.RuntimeConfigHandler(nil, c.Limits),
		})
	}
	return h, c, "httpd.NewHandler + copied /runtime_config registration (" + how + ")", nil
}

func routerOf(h *httpd.Handler) (*mux.Router, error) {
	v := reflect.ValueOf(h).Elem().FieldByName("mux")
	if !v.IsValid() || v.Kind() != reflect.Ptr {
		return nil, fmt.Errorf("Handler has no pointer field mux")
	}
	if v.Type() != reflect.TypeOf((*mux.Router)(nil)) {
		return nil, fmt.Errorf("Handler.mux has type %s", v.Type())
	}
	return (*mux.Router)(unsafe.Pointer(v.Pointer())), nil
}

// routeTable returns the registered routes and the name of the source used.
func routeTable(h *httpd.Handler, pprof bool) ([]RouteInfo, string, error) {
	var out []RouteInfo
	src := ""
	if hk, ok := any(h).(h2); ok {
		src = "hook H2 (Handler.VerifRoutes)"
		for _, mp := range hk.VerifRoutes() {
			out = append(out, RouteInfo{Method: mp[0], Pattern: mp[1], Source: "router"})
		}
	} else {
		src = "reflect walk of Handler.mux (H2 not present)"
		r, err := routerOf(h)
		if err != nil {
			return nil, "", err
		}
		err = r.Walk(func(route *mux.Route, _ *mux.Router, _ []*mux.Route) error {
			tpl, err := route.GetPathTemplate()
			if err != nil {
				return fmt.Errorf("route without path template: %v", err)
			}
			ms, err := route.GetMethods()
			if err != nil || len(ms) == 0 {
				ms = []string{"*"}
			}
			for _, m := range ms {
				out = append(out, RouteInfo{Method: m, Pattern: tpl, Source: "router"})
			}
			return nil
		})
		if err != nil {
			return nil, "", err
		}
	}
	for _, p := range prefixRoutes(pprof) {
		out = append(out, p)
	}
	sort.SliceStable(out, func(i, j int) bool { return out[i].Key() < out[j].Key() })
	// duplicates (the same method+pattern registered twice) collapse
	var ded []RouteInfo
	for i, r := range out {
		if i > 0 && out[i-1].Key() == r.Key() {
			continue
		}
		ded = append(ded, r)
	}
	return ded, src, nil
}

// prefixRoutes: what Handler.ServeHTTP serves before consulting the router. Every HTTP method reaches these
// handlers; GET and POST are exercised.
func prefixRoutes(pprof bool) []RouteInfo {
	var out []RouteInfo
	paths := []string{"/debug/vars", "/debug/query"}
	if pprof {
		paths = append(paths, "/debug/pprof/", "/debug/pprof/cmdline", "/debug/pprof/symbol", "/debug/pprof/goroutine",
			"/debug/pprof/heap", "/debug/pprof/all", "/debug/pprof/profile")
	}
	for _, p := range paths {
		for _, m := range []string{"GET", "POST"} {
			out = append(out, RouteInfo{Method: m, Pattern: p, Source: "prefix"})
		}
	}
	return out
}

// undeclaredPrefixes probes the in-process handler with paths that no router entry and no declared prefix matches.
// A path below /debug that is answered by something else than the router's 404 means ServeHTTP dispatches a prefix
// this check does not know: the harness is out of date (inconclusive, not a violation).
func undeclaredPrefixes(h *httpd.Handler) []string {
	var bad []string
	for _, p := range []string{"/debug", "/debug/", "/debug/x", "/debug/ctrlx", "/debug/requests", "/debug/failpoint", "/x", "/"} {
		rec := httptest.NewRecorder()
		req := httptest.NewRequest("GET", p, nil)
		func() {
			defer func() {
				if r := recover(); r != nil {
					bad = append(bad, fmt.Sprintf("%s (panic %v)", p, r))
				}
			}()
			h.ServeHTTP(rec, req)
		}()
		if rec.Code != http.StatusNotFound {
			bad = append(bad, fmt.Sprintf("%s -> %d", p, rec.Code))
		}
	}
	return bad
}

func pathParams(pattern string) []string {
	var out []string
	for _, seg := range strings.Split(pattern, "/") {
		if strings.HasPrefix(seg, "{") && strings.HasSuffix(seg, "}") {
			n := strings.TrimSuffix(strings.TrimPrefix(seg, "{"), "}")
			if i := strings.Index(n, ":"); i >= 0 {
				n = n[:i]
			}
			out = append(out, n)
		}
	}
	return out
}
