package c19

import (
	"bytes"
	"encoding/base64"
	"encoding/json"
	"fmt"
	"io"
	"net/http"
	"net/url"
	"os"
	"path/filepath"
	"regexp"
	"sort"
	"strconv"
	"strings"
	"sync"
	"time"

	"verif/internal/bb"
)

// Req is one HTTP request without credentials (self-contained, replayable).
type Req struct {
	Method  string            `json:"method"`
	Pattern string            `json:"pattern"`
	Path    string            `json:"path"`
	Query   map[string]string `json:"query,omitempty"`
	Body64  string            `json:"body64,omitempty"` // base64 of the body
	Form    bool              `json:"form,omitempty"`   // Query goes into an urlencoded body instead of the URL
	CT      string            `json:"ct,omitempty"`
	Kind    string            `json:"kind"`           // payload kind (statement kind, ctrl mod, ...)
	N       int               `json:"n,omitempty"`    // number carried by the scratch objects of this request (names like newdb_<n>)
	Text    string            `json:"text,omitempty"` // human-readable payload (statement, line protocol)
	// Need: what the statement of the property requires of the caller:
	// public | auth | admin | read:<db> | write:<db> | rw:<src>:<dst> | any:<db> | unspec
	Need    string `json:"need"`
	Setup   []Req  `json:"setup,omitempty"`   // run with admin credentials before
	Cleanup []Req  `json:"cleanup,omitempty"` // run with admin credentials after
	// Targets: queries (run as admin) whose result must not change: the very rows this request would write
	Targets []Target `json:"targets,omitempty"`
	// AdminMayFail: the request is expected to be refused for the administrator as well (pair is trivial)
	AdminMayFail bool `json:"admin_may_fail,omitempty"`
}

type Target struct {
	DB string `json:"db"`
	Q  string `json:"q"`
}

func (r Req) body() []byte {
	b, _ := base64.StdEncoding.DecodeString(r.Body64)
	return b
}

type Resp struct {
	Status int
	Body   string
	Header http.Header
	Err    string
}

func (r Resp) short() string {
	b := r.Body
	if len(b) > 300 {
		b = b[:300] + "..."
	}
	return fmt.Sprintf("%d %q", r.Status, b)
}

// Env is one running server with the fixture.
type Env struct {
	Name    string
	S       *bb.Server
	Routes  []RouteInfo
	Source  string
	HTTP    *http.Client
	counter int
	mu      sync.Mutex
	trace   []string // the last requests sent (diagnosis of a reported difference)
	Logkeep bool
}

var dbs = []string{"db1", "db2"}

const promMetric = "c19_metric"
const metricStore = "c19store"
const repoName = "repo1"
const streamName = "ls1"

func (e *Env) next() int {
	e.mu.Lock()
	defer e.mu.Unlock()
	e.counter++
	return e.counter
}

// Do sends the request with the given credentials. Transport failures are harness problems.
func (e *Env) Do(r Req, c Cred) Resp {
	q := url.Values{}
	form := url.Values{}
	for k, v := range r.Query {
		if r.Form {
			form.Set(k, v)
		} else {
			q.Set(k, v)
		}
	}
	if c.HasUP {
		q.Set("u", c.U)
		q.Set("p", c.P)
	}
	u := e.S.URL() + r.Path
	if len(q) > 0 {
		u += "?" + q.Encode()
	}
	var body io.Reader
	ct := r.CT
	if r.Form {
		body = strings.NewReader(form.Encode())
		ct = "application/x-www-form-urlencoded"
	} else if r.Body64 != "" {
		body = bytes.NewReader(r.body())
	}
	req, err := http.NewRequest(r.Method, u, body)
	if err != nil {
		bb.Fatal("bad request %s %s: %v", r.Method, u, err)
	}
	if ct != "" {
		req.Header.Set("Content-Type", ct)
	}
	if c.Header != "" {
		req.Header.Set("Authorization", c.Header)
	}
	var resp *http.Response
	for attempt := 0; ; attempt++ {
		resp, err = e.HTTP.Do(req)
		if err == nil {
			break
		}
		if !e.S.Alive() {
			return Resp{Err: "server died: " + err.Error()}
		}
		if attempt >= 2 {
			return Resp{Err: err.Error()}
		}
		time.Sleep(100 * time.Millisecond)
		if body != nil { // rebuild the body for the retry
			if r.Form {
				req.Body = io.NopCloser(strings.NewReader(form.Encode()))
			} else {
				req.Body = io.NopCloser(bytes.NewReader(r.body()))
			}
		}
	}
	defer resp.Body.Close()
	b, _ := io.ReadAll(io.LimitReader(resp.Body, 1<<20))
	if r.Kind != "" && r.Kind != "probe" {
		e.mu.Lock()
		e.trace = append(e.trace, fmt.Sprintf("%s %s %s %.80q as %s/%s -> %d", r.Method, r.Path, r.Kind, r.Text, c.Class, c.User, resp.StatusCode))
		if len(e.trace) > 14 {
			e.trace = e.trace[len(e.trace)-14:]
		}
		e.mu.Unlock()
	}
	return Resp{Status: resp.StatusCode, Body: string(b), Header: resp.Header}
}

func (e *Env) lastRequests() string {
	e.mu.Lock()
	defer e.mu.Unlock()
	return strings.Join(e.trace, " ;; ")
}

// adminStep runs a setup/cleanup step; a write refused with 5xx (shard group just created) is retried.
func (e *Env) adminStep(s Req) Resp {
	var resp Resp
	for i := 0; i < 30; i++ {
		resp = e.Do(s, adminCred())
		if resp.Status/100 != 5 || resp.Err != "" || s.Pattern != "/write" {
			break
		}
		time.Sleep(100 * time.Millisecond)
	}
	return resp
}

func adminCred() Cred { return validCred(clAdmin, uAdmin, trBasic) }

func qReq(db, q string) Req {
	r := Req{Method: "POST", Pattern: "/query", Path: "/query", Query: map[string]string{"q": q}, Form: true, Kind: "admin-step", Text: q, Need: "admin"}
	if db != "" {
		r.Query["db"] = db
	}
	return r
}

func writeReq(db, lp string) Req {
	return Req{Method: "POST", Pattern: "/write", Path: "/write", Query: map[string]string{"db": db}, Body64: base64.StdEncoding.EncodeToString([]byte(lp)), Kind: "admin-step", Text: lp, Need: "write:" + db}
}

func ctrlReq(params map[string]string) Req {
	return Req{Method: "POST", Pattern: "/debug/ctrl", Path: "/debug/ctrl", Query: params, Kind: "admin-step", Need: "admin"}
}

type qResult struct {
	Results []struct {
		Series []struct {
			Name    string            `json:"name"`
			Tags    map[string]string `json:"tags"`
			Columns []string          `json:"columns"`
			Values  [][]any           `json:"values"`
		} `json:"series"`
		Err string `json:"error"`
	} `json:"results"`
	Err string `json:"error"`
}

// accepted: the server carried the request out (2xx and, for InfluxQL, no error inside the result document).
func accepted(r Req, resp Resp) bool {
	if resp.Status/100 != 2 {
		return false
	}
	if r.Pattern == "/query" {
		var qr qResult
		dec := json.NewDecoder(strings.NewReader(resp.Body))
		for {
			var part qResult
			if err := dec.Decode(&part); err != nil {
				break
			}
			qr.Results = append(qr.Results, part.Results...)
			if part.Err != "" {
				qr.Err = part.Err
			}
		}
		if qr.Err != "" {
			return false
		}
		for _, x := range qr.Results {
			if x.Err != "" {
				return false
			}
		}
	}
	return true
}

// adminExec runs an InfluxQL statement as admin and returns the parsed result; errors are returned as text.
func (e *Env) adminQuery(db, q string) (qResult, string) {
	pr := qReq(db, q)
	pr.Kind = "probe"
	resp := e.Do(pr, adminCred())
	var qr qResult
	if resp.Err != "" {
		return qr, "transport: " + resp.Err
	}
	if err := json.Unmarshal([]byte(resp.Body), &qr); err != nil {
		return qr, fmt.Sprintf("status %d, body %.200q", resp.Status, resp.Body)
	}
	if resp.Status != 200 {
		return qr, fmt.Sprintf("status %d: %s", resp.Status, qr.Err)
	}
	if qr.Err != "" {
		return qr, qr.Err
	}
	for _, r := range qr.Results {
		if r.Err != "" {
			return qr, r.Err
		}
	}
	return qr, ""
}

func (e *Env) mustAdmin(db, q string) qResult {
	var last string
	for i := 0; i < 40; i++ {
		r, err := e.adminQuery(db, q)
		if err == "" {
			return r
		}
		last = err
		time.Sleep(150 * time.Millisecond)
	}
	bb.Fatal("admin statement %q failed: %s", q, last)
	return qResult{}
}

// ------------------------------------------------------------------------------------------ start-up

// startEnv starts a server with authentication enabled and loads the fixture.
// cfg: "basic" (the single-node template + auth + shared secret) or "logkeeper" (product-type logkeeper + runtime config service).
func startEnv(cfg string, instance int) *Env {
	knobs := map[string]string{"auth-enabled": "true", "raw:http": `shared-secret = "` + sharedSecret + `"`}
	if cfg == "logkeeper" {
		knobs["raw:common"] = `product-type = "logkeeper"`
	}
	s := bb.NewServer(bb.Options{Prop: 19, Instance: instance, Knobs: knobs, NoHook: true})
	conf := filepath.Join(s.Dir, "server.conf")
	if cfg == "logkeeper" {
		rt := filepath.Join(s.Dir, "runtime.yaml")
		if err := os.WriteFile(rt, []byte("overrides:\n  tenant1:\n    prom_limit_enabled: false\n"), 0o644); err != nil {
			bb.Fatal("write runtime config: %v", err)
		}
		b, err := os.ReadFile(conf)
		if err != nil {
			bb.Fatal("read config: %v", err)
		}
		c := strings.Replace(string(b), "[runtime-config]\n  enabled = false\n  load-path = \"/opt/dbs/runtimeconfig/overrides.yml\"",
			"[runtime-config]\n  enabled = true\n  load-path = \""+rt+"\"", 1)
		if c == string(b) {
			bb.Fatal("configuration template has no [runtime-config] section to enable")
		}
		b = []byte(c)
		if err := os.WriteFile(conf, b, 0o644); err != nil {
			bb.Fatal("write config: %v", err)
		}
	}
	e := &Env{Name: cfg, S: s, Logkeep: cfg == "logkeeper",
		HTTP: &http.Client{Timeout: 60 * time.Second, Transport: &http.Transport{MaxIdleConnsPerHost: 8, DisableCompression: true},
			CheckRedirect: func(*http.Request, []*http.Request) error { return http.ErrUseLastResponse }}}

	// the route table of this configuration, from the code under test
	h, c, how, err := buildHandler(conf)
	if err != nil {
		bb.Fatal("route table: %v", err)
	}
	e.Routes, e.Source, err = routeTable(h, c.HTTP.PprofEnabled)
	if err != nil {
		bb.Fatal("route table: %v", err)
	}
	e.Source = "handler built by " + how + "; routes by " + e.Source
	if bad := undeclaredPrefixes(h); len(bad) > 0 {
		bb.Fatal("Handler.ServeHTTP answers paths outside the router and outside the declared prefixes: %v (update prefixRoutes)", bad)
	}
	if !c.HTTP.AuthEnabled || c.HTTP.SharedSecret != sharedSecret {
		bb.Fatal("configuration %s does not enable authentication", conf)
	}

	s.Start("")
	// bootstrap: with authentication on and no user, the only accepted statement creates the administrator
	adm := userByName(uAdmin)
	deadline := time.Now().Add(60 * time.Second)
	created := false
	var last string
	for time.Now().Before(deadline) && !created {
		if !s.Alive() {
			bb.Fatal("server %s died during start: %s", s.IP, s.TailLog(2000))
		}
		r := qReq("", fmt.Sprintf("CREATE USER %s WITH PASSWORD '%s' WITH ALL PRIVILEGES", adm.Name, adm.Pass))
		resp := e.Do(r, Cred{})
		last = resp.short() + resp.Err
		if resp.Status == 200 && accepted(r, resp) {
			created = true
			break
		}
		time.Sleep(100 * time.Millisecond)
	}
	if !created {
		bb.Fatal("cannot create the administrator on %s: %s\n%s", s.IP, last, s.TailLog(1500))
	}
	s.User, s.Pass = adm.Name, adm.Pass
	if !s.WaitReady(60 * time.Second) {
		bb.Fatal("server %s not ready: %s", s.IP, s.TailLog(2000))
	}
	e.loadFixture()
	return e
}

func (e *Env) loadFixture() {
	for _, db := range append([]string{scratchDB}, dbs...) {
		e.mustAdmin("", "CREATE DATABASE "+db)
	}
	for _, u := range fixtureUsers {
		if u.Admin {
			continue
		}
		e.mustAdmin("", fmt.Sprintf("CREATE USER %s WITH PASSWORD '%s'", u.Name, u.Pass))
		for db, p := range u.Priv {
			e.mustAdmin("", fmt.Sprintf("GRANT %s ON %s TO %s", privName(p), db, u.Name))
		}
	}
	if e.Logkeep {
		// log-keeper product: no time-series rows (a line-protocol write into a plain database crashes this product type:
		// outside this property); the fixture is the catalogue, the users and one repository with one log stream
		e.mustStep(Req{Method: "POST", Pattern: "/api/v1/repository/{repository}", Path: "/api/v1/repository/" + repoName})
		ls := Req{Method: "POST", Pattern: "/api/v1/logstream/{repository}/{logStream}", Path: "/api/v1/logstream/" + repoName + "/" + streamName, CT: "application/json"}
		ls.Body64 = base64.StdEncoding.EncodeToString([]byte(`{"ttl": 3}`))
		e.mustStep(ls)
		return
	}
	writeRows := func(db string) {
		for i := 0; i < 3; i++ {
			e.mustWrite(db, fmt.Sprintf("probe,host=a v=%d %d", i, tsBase+int64(i)*1e9))
		}
		e.mustWrite(db, fmt.Sprintf("ctlprobe,host=a v=1 %d", tsBase))
		e.mustWrite(db, fmt.Sprintf("ctldel,host=a v=1 %d", tsBase))
		// the Prometheus series the remote-write payloads extend (so that a later sample is visible at once)
		for _, path := range []string{"/api/v1/write", "/prometheus/" + metricStore + "/api/v1/write"} {
			e.mustStep(Req{Method: "POST", Pattern: path, Path: path, Query: map[string]string{"db": db}, CT: "application/x-protobuf",
				Body64: base64.StdEncoding.EncodeToString(promWriteBody(promMetric, promTS, true))})
		}
	}
	for _, db := range dbs {
		writeRows(db)
	}
	// wait until the new series are visible to queries (index flush lag); the rows are idempotent and written again when
	// they do not show up (a busy machine: an acknowledged first write into a fresh shard has been seen to stay invisible)
	for _, db := range dbs {
		start := time.Now()
		rewritten := 0
		for {
			r, err := e.adminQuery(db, rowsQuery)
			if err == "" && len(r.Results) == 1 && totalCount(r) == 7 { // 3 probe + ctlprobe + ctldel + 2 Prometheus samples
				break
			}
			if el := time.Since(start); el > 120*time.Second {
				bb.Fatal("fixture rows of %s not visible after %v: %v %s", db, el, r, err)
			} else if el > time.Duration(15*(rewritten+1))*time.Second {
				rewritten++
				writeRows(db)
			}
			time.Sleep(100 * time.Millisecond)
		}
	}
}

func totalCount(r qResult) int {
	n := 0
	for _, res := range r.Results {
		for _, s := range res.Series {
			for _, v := range s.Values {
				for i, x := range v {
					if f, ok := x.(float64); ok && i > 0 {
						n += int(f)
					}
				}
			}
		}
	}
	return n
}

const tsBase = int64(1700000000) * 1e9

// measurements whose row counts are part of the snapshot: all their series exist from the fixture on, so a row added by
// anybody is visible to the next query (a NEW series would only become visible after the index flush, about a second later)
var rowMeasurements = []string{"probe", "ctlprobe", "ctldel", promMetric, metricStore}

var rowsQuery = "SELECT count(*) FROM " + strings.Join(rowMeasurements, ", ")

func privName(p int) string {
	switch p {
	case 1:
		return "READ"
	case 2:
		return "WRITE"
	case 3:
		return "ALL"
	}
	return "NONE"
}

func (e *Env) mustWrite(db, lp string) {
	var last string
	for i := 0; i < 60; i++ {
		resp := e.Do(writeReq(db, lp), adminCred())
		if resp.Status == 204 {
			return
		}
		last = resp.short() + resp.Err
		time.Sleep(150 * time.Millisecond)
	}
	bb.Fatal("admin write to %s failed: %s", db, last)
}

func (e *Env) mustStep(r Req) {
	var last string
	for i := 0; i < 20; i++ {
		resp := e.Do(r, adminCred())
		if resp.Status/100 == 2 {
			return
		}
		last = resp.short() + resp.Err
		time.Sleep(150 * time.Millisecond)
	}
	bb.Fatal("fixture step %s %s failed: %s", r.Method, r.Path, last)
}

// ------------------------------------------------------------------------------------------ side-effect probe

// Snapshot is what an administrator can observe of catalogue, data volume and server switches.
type Snapshot map[string]string

// scratch objects are created and removed by the administrator steps around each request; their removal is asynchronous
// (a dropped retention policy / measurement / database stays listed for about a second). The snapshot therefore ignores
// scratch objects that belong to OTHER requests (recognised by the number in their name); those of the request under
// judgement are part of the snapshot.
var scratchRe = regexp.MustCompile(`(into_|victim_|vm_|rp_|newdb_|victimdb_|newuser_|victimuser_|tsdb|newrepo|victimrepo|newls|victimls)(\d+)`)

func foreignScratch(s string, n int) bool {
	for _, m := range scratchRe.FindAllStringSubmatch(s, -1) {
		if k, _ := strconv.Atoi(m[2]); k != n {
			return true
		}
	}
	return false
}

func renderSeries(r qResult, n int) string {
	var parts []string
	for _, res := range r.Results {
		for _, s := range res.Series {
			var rows []string
			for _, v := range s.Values {
				b, _ := json.Marshal(v)
				if foreignScratch(string(b), n) {
					continue
				}
				rows = append(rows, string(b))
			}
			sort.Strings(rows)
			tags, _ := json.Marshal(s.Tags)
			parts = append(parts, s.Name+string(tags)+strings.Join(s.Columns, ",")+":"+strings.Join(rows, ";"))
		}
	}
	sort.Strings(parts)
	return strings.Join(parts, " | ")
}

// probe takes the snapshot with admin credentials. deep additionally checks that every fixture user can still log in
// with the fixture password and that the server still accepts reads and writes (ctrl switches).
func (e *Env) probe(deep bool, n int, targets []Target) Snapshot {
	sn := Snapshot{}
	get := func(key, db, q string) qResult {
		r, err := e.adminQuery(db, q)
		if err != "" {
			// a transient refusal is retried; a persistent one is recorded as such (it is state too)
			for i := 0; i < 5 && err != ""; i++ {
				time.Sleep(100 * time.Millisecond)
				r, err = e.adminQuery(db, q)
			}
		}
		if err != "" {
			sn[key] = "ERROR " + err
		} else {
			sn[key] = renderSeries(r, n)
		}
		return r
	}
	r := get("databases", "", "SHOW DATABASES")
	var names []string
	for _, res := range r.Results {
		for _, s := range res.Series {
			for _, v := range s.Values {
				if len(v) > 0 {
					names = append(names, fmt.Sprint(v[0]))
				}
			}
		}
	}
	sort.Strings(names)
	for _, db := range names {
		if db == "_internal" || foreignScratch(db, n) {
			continue
		}
		get("measurements/"+db, db, "SHOW MEASUREMENTS")
		get("rps/"+db, db, "SHOW RETENTION POLICIES ON "+bb.Quote(db))
		if !e.Logkeep && (db == "db1" || db == "db2") {
			// total row counts, one key per column: a later comparison treats a decrease differently from an increase
			rr, err := e.adminQuery(db, rowsQuery)
			if err != "" {
				sn["rows/"+db] = "ERROR " + err
			}
			for _, res := range rr.Results {
				for _, s := range res.Series {
					for _, v := range s.Values {
						for i := 1; i < len(v) && i < len(s.Columns); i++ {
							sn["rows/"+db+"/"+s.Columns[i]] = fmt.Sprint(v[i])
						}
					}
				}
			}
		}
	}
	ur := get("users", "", "SHOW USERS")
	for _, res := range ur.Results {
		for _, s := range res.Series {
			for _, v := range s.Values {
				if len(v) > 0 && !foreignScratch(fmt.Sprint(v[0]), n) {
					get("grants/"+fmt.Sprint(v[0]), "", "SHOW GRANTS FOR "+bb.Quote(fmt.Sprint(v[0])))
				}
			}
		}
	}
	for i, tg := range targets {
		get(fmt.Sprintf("target/%d", i), tg.DB, tg.Q)
	}
	if deep {
		for _, u := range fixtureUsers {
			resp := e.Do(Req{Method: "GET", Pattern: "/query", Path: "/query", Query: map[string]string{"q": "SHOW DATABASES"}}, validCred("", u.Name, trBasic))
			sn["login/"+u.Name] = fmt.Sprint(resp.Status)
		}
		// switches reachable through ctrl: reads and writes still served (an overwrite of a constant point changes no count)
		if !e.Logkeep { // (no row writes in the log-keeper configuration)
			w := e.Do(writeReq("db1", fmt.Sprintf("ctlprobe,host=a v=1 %d", tsBase)), adminCred())
			sn["switch/write"] = fmt.Sprint(w.Status)
		}
	}
	return sn
}

// onlyRowDecrease: every difference is a total row count that went DOWN. Rows disappearing while the request under
// judgement was refused cannot be its doing (it asked for nothing of the kind and was answered 401/403); the engine has
// been observed to lose rows of the probe measurement on its own during long runs (not this property).
func onlyRowDecrease(a, b Snapshot) bool {
	n := 0
	for k, av := range a {
		bv, ok := b[k]
		if ok && av == bv {
			continue
		}
		if !strings.HasPrefix(k, "rows/") || !ok {
			return false
		}
		x, e1 := strconv.ParseFloat(av, 64)
		y, e2 := strconv.ParseFloat(bv, 64)
		if e1 != nil || e2 != nil || y >= x {
			return false
		}
		n++
	}
	for k := range b {
		if _, ok := a[k]; !ok {
			return false
		}
	}
	return n > 0
}

func diffSnap(a, b Snapshot) string {
	var keys []string
	seen := map[string]bool{}
	for k := range a {
		keys = append(keys, k)
		seen[k] = true
	}
	for k := range b {
		if !seen[k] {
			keys = append(keys, k)
		}
	}
	sort.Strings(keys)
	var out []string
	for _, k := range keys {
		if a[k] != b[k] {
			out = append(out, fmt.Sprintf("%s: %.200q -> %.200q", k, a[k], b[k]))
		}
	}
	return strings.Join(out, "; ")
}
