package c19

import (
	"encoding/base64"
	"fmt"
	"strings"

	"github.com/golang/snappy"
	"github.com/prometheus/prometheus/prompb"
)

func b64b(b []byte) string { return base64.StdEncoding.EncodeToString(b) }

func promWriteBody(metric string, tsMillis int64, withName bool) []byte {
	labels := []prompb.Label{{Name: "job", Value: "c19"}}
	if withName {
		labels = append([]prompb.Label{{Name: "__name__", Value: metric}}, labels...)
	}
	wr := prompb.WriteRequest{Timeseries: []prompb.TimeSeries{{Labels: labels, Samples: []prompb.Sample{{Value: 1, Timestamp: tsMillis}}}}}
	b, _ := wr.Marshal()
	return snappy.Encode(nil, b)
}

func promReadBody(metric string, withName bool) []byte {
	ms := []*prompb.LabelMatcher{{Type: prompb.LabelMatcher_EQ, Name: "job", Value: "c19"}}
	if withName {
		ms = append(ms, &prompb.LabelMatcher{Type: prompb.LabelMatcher_EQ, Name: "__name__", Value: metric})
	}
	rr := prompb.ReadRequest{Queries: []*prompb.Query{{StartTimestampMs: promTS - 3600_000, EndTimestampMs: promTS + 3600_000, Matchers: ms}}}
	b, _ := rr.Marshal()
	return snappy.Encode(nil, b)
}

const scratchDB = "scratchdb"

const promTS = int64(1700000000) * 1000 // ms

func other(db string) string {
	if db == "db1" {
		return "db2"
	}
	return "db1"
}

func fillPath(pattern string, vals map[string]string) string {
	segs := strings.Split(pattern, "/")
	for i, s := range segs {
		if strings.HasPrefix(s, "{") && strings.HasSuffix(s, "}") {
			n := strings.TrimSuffix(strings.TrimPrefix(s, "{"), "}")
			if j := strings.Index(n, ":"); j >= 0 {
				n = n[:j]
			}
			if v, ok := vals[n]; ok {
				segs[i] = v
			} else {
				segs[i] = "db1" // an existing object name
			}
		}
	}
	return strings.Join(segs, "/")
}

// isPublic: the liveness/status endpoints and pre-flight requests of the statement.
func isPublic(r RouteInfo) bool {
	if r.Method == "OPTIONS" {
		return true
	}
	switch r.Pattern {
	case "/ping", "/status":
		return true
	}
	return false
}

// queryVariants: statement kinds for the query endpoint.
func (e *Env) queryVariants(method string) []Req {
	var out []Req
	n := e.next()
	mk := func(kind, db, q, need string) *Req {
		r := Req{Method: method, Pattern: "/query", Path: "/query", Query: map[string]string{"q": q}, Kind: kind, Text: q, Need: need, Form: method == "POST", N: n}
		if db != "" {
			r.Query["db"] = db
		}
		out = append(out, r)
		n = e.next() // no two variants share a number
		return &out[len(out)-1]
	}
	for _, db := range dbs {
		o := other(db)
		// read
		mk("read", db, "SELECT count(v) FROM probe", "read:"+db)
		mk("read_qualified_other_default", o, fmt.Sprintf("SELECT v FROM %s.autogen.probe LIMIT 2", db), "read:"+db)
		mk("read_subquery", db, fmt.Sprintf("SELECT max(v) FROM (SELECT v FROM %s.autogen.probe)", db), "read:"+db)
		// statements reading TWO databases: every operand's database needs READ, whichever side it stands on
		mk("read_union_other_right", db, fmt.Sprintf("SELECT v FROM %s.autogen.probe UNION ALL SELECT v FROM %s.autogen.probe", db, o), "reads:"+db+":"+o)
		mk("read_union_other_left", db, fmt.Sprintf("SELECT v FROM %s.autogen.probe UNION ALL SELECT v FROM %s.autogen.probe", o, db), "reads:"+db+":"+o)
		mk("read_subquery_other", db, fmt.Sprintf("SELECT max(v) FROM (SELECT v FROM %s.autogen.probe)", o), "read:"+o)
		mk("read_two_sources", db, fmt.Sprintf("SELECT v FROM %s.autogen.probe, %s.autogen.probe LIMIT 4", db, o), "reads:"+db+":"+o)
		r := mk("read_chunked", db, "SELECT v FROM probe", "read:"+db)
		r.Query["chunked"], r.Query["chunk_size"] = "true", "1"
		// show
		mk("show_measurements", db, "SHOW MEASUREMENTS", "read:"+db)
		mk("show_measurements_on", o, "SHOW MEASUREMENTS ON "+db, "read:"+db)
		mk("show_series", db, "SHOW SERIES", "read:"+db)
		mk("show_tag_keys", db, "SHOW TAG KEYS", "read:"+db)
		mk("show_field_keys", db, "SHOW FIELD KEYS", "read:"+db)
		mk("show_tag_values", db, "SHOW TAG VALUES WITH KEY = host", "read:"+db)
		mk("show_rps", "", "SHOW RETENTION POLICIES ON "+db, "read:"+db)
		// write-into
		// (every variant that owns scratch objects gets its own number: the snapshot ignores scratch objects of other numbers)
		n = e.next()
		tgt := fmt.Sprintf("into_%d", n)
		mk("select_into", db, fmt.Sprintf("SELECT v INTO %s.autogen.%s FROM %s.autogen.probe", db, tgt, db), "rw:"+db+":"+db)
		n = e.next()
		tgt = fmt.Sprintf("into_%d", n)
		mk("select_into_cross", db, fmt.Sprintf("SELECT v INTO %s.autogen.%sx FROM %s.autogen.probe", o, tgt, db), "rw:"+db+":"+o)
		// multi-statement: an allowed read followed by something the reader may not do
		n = e.next()
		victim := fmt.Sprintf("victim_%d_%s", n, db)
		r = mk("multi_read_then_ddl", db, "SELECT count(v) FROM probe; DROP DATABASE "+victim, "admin")
		r.Setup = []Req{qReq("", "CREATE DATABASE "+victim)}
		r.Cleanup = []Req{qReq("", "DROP DATABASE "+victim)}
		// data-level DDL
		n = e.next()
		vm := fmt.Sprintf("vm_%d", n)
		if db == "db1" { // on the scratch database: the background removal of a measurement disturbs reads of its database for a moment
			r = mk("ddl_drop_measurement", scratchDB, "DROP MEASUREMENT "+vm, "admin")
			r.Setup = []Req{writeReq(scratchDB, fmt.Sprintf("%s,host=a v=1 %d", vm, tsBase))}
		}
		mk("ddl_drop_series", db, "DROP SERIES FROM ctldel WHERE host = 'zz'", "write:"+db)
		n = e.next()
		rp := fmt.Sprintf("rp_%d", n)
		r = mk("ddl_create_rp", "", fmt.Sprintf("CREATE RETENTION POLICY %s ON %s DURATION 2d REPLICATION 1", rp, db), "admin")
		r.Cleanup = []Req{qReq("", fmt.Sprintf("DROP RETENTION POLICY %s ON %s", rp, db))}
		n = e.next()
		rp = fmt.Sprintf("rp_%d", n)
		r = mk("ddl_alter_rp", "", fmt.Sprintf("ALTER RETENTION POLICY %sa ON %s DURATION 3d", rp, db), "admin")
		r.Setup = []Req{qReq("", fmt.Sprintf("CREATE RETENTION POLICY %sa ON %s DURATION 2d REPLICATION 1", rp, db))}
		r.Cleanup = []Req{qReq("", fmt.Sprintf("DROP RETENTION POLICY %sa ON %s", rp, db))}
		n = e.next()
		rp = fmt.Sprintf("rp_%d", n)
		r = mk("ddl_drop_rp", "", fmt.Sprintf("DROP RETENTION POLICY %sd ON %s", rp, db), "write:"+db)
		r.Setup = []Req{qReq("", fmt.Sprintf("CREATE RETENTION POLICY %sd ON %s DURATION 2d REPLICATION 1", rp, db))}
		r.Cleanup = []Req{qReq("", fmt.Sprintf("DROP RETENTION POLICY %sd ON %s", rp, db))}
		// user administration on this database
		r = mk("user_grant", "", fmt.Sprintf("GRANT ALL ON %s TO %s", db, uNop), "admin")
		r.Cleanup = []Req{qReq("", fmt.Sprintf("REVOKE ALL ON %s FROM %s", db, uNop))}
	}
	// catalogue DDL
	n = e.next()
	nd := fmt.Sprintf("newdb_%d", n)
	r := mk("ddl_create_database", "", "CREATE DATABASE "+nd, "admin")
	r.Cleanup = []Req{qReq("", "DROP DATABASE "+nd)}
	n = e.next()
	vd := fmt.Sprintf("victimdb_%d", n)
	r = mk("ddl_drop_database", "", "DROP DATABASE "+vd, "admin")
	r.Setup = []Req{qReq("", "CREATE DATABASE "+vd)}
	r.Cleanup = []Req{qReq("", "DROP DATABASE "+vd)}
	// show (catalogue / server)
	mk("show_databases", "", "SHOW DATABASES", "auth")
	mk("show_users", "", "SHOW USERS", "admin")
	mk("show_grants", "", "SHOW GRANTS FOR "+uRd1, "admin")
	mk("show_shards", "", "SHOW SHARDS", "admin")
	mk("show_subscriptions", "", "SHOW SUBSCRIPTIONS", "admin")
	mk("show_configs", "", "SHOW CONFIGS", "admin")
	// user administration
	n = e.next()
	nu := fmt.Sprintf("newuser_%d", n)
	r = mk("user_create", "", fmt.Sprintf("CREATE USER %s WITH PASSWORD 'Fresh_Pass#%d'", nu, n), "admin")
	r.Cleanup = []Req{qReq("", "DROP USER "+nu)}
	n = e.next()
	vu := fmt.Sprintf("victimuser_%d", n)
	r = mk("user_drop", "", "DROP USER "+vu, "admin")
	r.Setup = []Req{qReq("", fmt.Sprintf("CREATE USER %s WITH PASSWORD 'Victim_Pass#19'", vu))}
	r.Cleanup = []Req{qReq("", "DROP USER "+vu)}
	n = e.next()
	vu = fmt.Sprintf("victimuser_%d", n)
	r = mk("user_set_password", "", fmt.Sprintf("SET PASSWORD FOR %sp = 'Changed_Pass#%d'", vu, n), "admin")
	r.Setup = []Req{qReq("", fmt.Sprintf("CREATE USER %sp WITH PASSWORD 'Victim_Pass#19'", vu))}
	r.Cleanup = []Req{qReq("", "DROP USER "+vu+"p")}
	r = mk("user_set_own_password", "", fmt.Sprintf("SET PASSWORD FOR %s = 'Changed_Pass#%d'", uNop, n), "admin")
	r.Cleanup = []Req{qReq("", fmt.Sprintf("SET PASSWORD FOR %s = '%s'", uNop, userByName(uNop).Pass))}
	r = mk("user_revoke", "", fmt.Sprintf("REVOKE READ ON db1 FROM %s", uRd1), "admin")
	r.Cleanup = []Req{qReq("", fmt.Sprintf("GRANT READ ON db1 TO %s", uRd1))}
	r = mk("user_grant_admin", "", fmt.Sprintf("GRANT ALL PRIVILEGES TO %s", uNop), "admin")
	r.AdminMayFail = true // a second administrator is refused
	r.Cleanup = []Req{qReq("", fmt.Sprintf("REVOKE ALL PRIVILEGES FROM %s", uNop))}
	return out
}

// variants returns the natural payloads of a route. Unknown routes get a generic request with existing object names.
func (e *Env) variants(rt RouteInfo) []Req {
	n := e.next()
	base := func(kind, need string, q map[string]string) Req {
		return Req{Method: rt.Method, Pattern: rt.Pattern, Path: rt.Pattern, Query: q, Kind: kind, Need: need, N: n}
	}
	var out []Req
	p := rt.Pattern
	// every generated timestamp stays inside the shard group of the fixture rows (2023-11-09..16): a series that is new to a
	// shard group becomes visible to queries only after the index flush, which would look like a late side effect
	ts := tsBase + int64(1000+n%30000)*1e9
	switch {
	case isPublic(rt):
		r := base("status", "public", nil)
		if rt.Pattern == "/ping" {
			out = append(out, r)
			r.Query = map[string]string{"verbose": "true"}
			r.Kind = "status_verbose"
		}
		out = append(out, r)
	case p == "/query":
		out = e.queryVariants(rt.Method)
		if e.Logkeep {
			out = catalogueOnly(out)
		}
	case p == "/write":
		for _, db := range dbs {
			lp := fmt.Sprintf("probe,host=a v=%d %d", n, ts)
			r := base("write", "write:"+db, map[string]string{"db": db})
			r.Body64, r.Text = b64b([]byte(lp)), lp
			r.Targets = []Target{{DB: db, Q: fmt.Sprintf("SELECT v FROM probe WHERE time = %d", ts)}}
			out = append(out, r)
			r = base("write_rp_precision", "write:"+db, map[string]string{"db": db, "rp": "autogen", "precision": "s"})
			lp = fmt.Sprintf("probe,host=a v=%d %d", n, ts/1e9+40000) // same shard group as the fixture rows (no new index entry)
			r.Body64, r.Text = b64b([]byte(lp)), lp
			r.Targets = []Target{{DB: db, Q: fmt.Sprintf("SELECT v FROM probe WHERE time = %d", (ts/1e9+40000)*1e9)}}
			out = append(out, r)
		}
	case p == "/api/v2/write":
		for _, db := range dbs {
			lp := fmt.Sprintf("probe,host=a v=%d %d", n, ts+1)
			r := base("write_v2", "write:"+db, map[string]string{"bucket": db + "/autogen", "org": "c19"})
			r.Body64, r.Text = b64b([]byte(lp)), lp
			r.Targets = []Target{{DB: db, Q: fmt.Sprintf("SELECT v FROM probe WHERE time = %d", ts+1)}}
			out = append(out, r)
			r = base("write_v2_bucket_only", "write:"+db, map[string]string{"bucket": db})
			lp = fmt.Sprintf("probe,host=a v=%d %d", n, ts+2)
			r.Body64, r.Text = b64b([]byte(lp)), lp
			r.Targets = []Target{{DB: db, Q: fmt.Sprintf("SELECT v FROM probe WHERE time = %d", ts+2)}}
			out = append(out, r)
		}
	case p == "/api/v2/query":
		r := base("flux", "auth", nil)
		r.Body64, r.CT = b64b([]byte(`from(bucket:"db1/autogen") |> range(start:-1h)`)), "application/vnd.flux"
		r.AdminMayFail = true // flux is disabled in this configuration
		out = append(out, r)
	case p == "/api/v1/write" || p == "/prometheus/{metric_store}/api/v1/write":
		for _, db := range dbs {
			r := base("prom_write", "write:"+db, map[string]string{"db": db})
			r.Path = fillPath(p, map[string]string{"metric_store": metricStore})
			r.Body64 = b64b(promWriteBody(promMetric, promTS+int64(n%30000)*1000, true))
			r.CT = "application/x-protobuf"
			mst := promMetric
			if strings.Contains(p, "{metric_store}") {
				mst = metricStore
			}
			r.Targets = []Target{{DB: db, Q: fmt.Sprintf("SELECT count(*) FROM %s WHERE time = %d", mst, (promTS+int64(n%30000)*1000)*1e6)}}
			out = append(out, r)
		}
	case p == "/api/v1/read" || p == "/prometheus/{metric_store}/api/v1/read":
		for _, db := range dbs {
			r := base("prom_read", "read:"+db, map[string]string{"db": db})
			r.Path = fillPath(p, map[string]string{"metric_store": metricStore})
			r.Body64 = b64b(promReadBody(promMetric, true))
			r.CT = "application/x-protobuf"
			out = append(out, r)
		}
	case strings.HasSuffix(p, "/api/v1/query") || strings.HasSuffix(p, "/api/v1/query_range") || strings.HasSuffix(p, "/api/v1/labels") ||
		strings.HasSuffix(p, "/api/v1/label/{name}/values") || strings.HasSuffix(p, "/api/v1/series") || strings.HasSuffix(p, "/api/v1/metadata"):
		for _, db := range dbs {
			q := map[string]string{"db": db}
			kind := "prom_meta"
			switch {
			case strings.HasSuffix(p, "/query"):
				q["query"], q["time"], kind = promMetric, "1700000000", "prom_query"
			case strings.HasSuffix(p, "/query_range"):
				q["query"], q["start"], q["end"], q["step"], kind = promMetric, "1699999000", "1700001000", "60", "prom_query_range"
			case strings.HasSuffix(p, "/series"):
				q["match[]"], q["start"], q["end"] = promMetric, "1699999000", "1700001000"
			case strings.HasSuffix(p, "/metadata"):
			default:
				q["start"], q["end"] = "1699999000", "1700001000"
			}
			r := base(kind, "read:"+db, q)
			r.Path = fillPath(p, map[string]string{"metric_store": metricStore, "name": "job"})
			r.Form = rt.Method == "POST"
			out = append(out, r)
		}
	case p == "/api/v1/tsdb/{tsdb}":
		name := fmt.Sprintf("tsdb%d", n)
		r := base("create_tsdb", "admin", nil)
		r.Path = fillPath(p, map[string]string{"tsdb": name})
		r.Cleanup = []Req{qReq("", "DROP DATABASE "+name)}
		out = append(out, r)
	case strings.HasPrefix(p, "/api/v1/otlp/"):
		for _, db := range dbs {
			r := base("otlp_empty_export", "write:"+db, map[string]string{"db": db})
			r.CT = "application/x-protobuf"
			out = append(out, r)
		}
	case p == "/fence/match_batch":
		for _, db := range dbs {
			out = append(out, base("fence_match", "any:"+db, map[string]string{"db": db, "points": "1,1"}))
		}
	case p == "/fence/delete_fence":
		for _, db := range dbs {
			out = append(out, base("fence_delete", "write:"+db, map[string]string{"db": db, "fenceId": "c19-no-such-fence"}))
		}
	case p == "/metrics":
		out = append(out, base("metrics", "auth", nil))
	case p == "/debug/ctrl":
		sw := func(mod string, on map[string]string, off map[string]string) {
			on["mod"], off["mod"] = mod, mod
			r := base("ctrl_"+mod, "admin", on)
			r.Cleanup = []Req{ctrlReq(off)}
			out = append(out, r)
		}
		sw("disablewrite", map[string]string{"switchon": "true"}, map[string]string{"switchon": "false"})
		sw("disableread", map[string]string{"switchon": "true"}, map[string]string{"switchon": "false"})
		sw("readonly", map[string]string{"switchon": "true"}, map[string]string{"switchon": "false"})
		sw("chunk_reader_parallel", map[string]string{"limit": "3"}, map[string]string{"limit": "0"})
		sw("time_filter_protection", map[string]string{"enabled": "true"}, map[string]string{"enabled": "false"})
		sw("print_logical_plan", map[string]string{"enabled": "1"}, map[string]string{"enabled": "0"})
		out = append(out, base("ctrl_flush", "admin", map[string]string{"mod": "flush"}))
		out = append(out, base("ctrl_failpoint", "admin", map[string]string{"mod": "failpoint", "point": "c19-no-such-point", "switchon": "false"}))
	case p == "/backup/run":
		r := base("backup_run", "admin", map[string]string{"isInc": "false", "backupPath": e.S.Dir + "/backup-c19"})
		out = append(out, r)
	case p == "/backup/abort" || p == "/backup/status":
		out = append(out, base(strings.TrimPrefix(p, "/"), "admin", nil))
	case p == "/failpoint":
		r := base("failpoint_enable", "admin", map[string]string{"point": "c19-no-such-point", "flag": "enable"})
		r.Body64, r.CT = b64b([]byte("term=return")), "application/x-www-form-urlencoded"
		r.Cleanup = []Req{{Method: "POST", Pattern: "/failpoint", Path: "/failpoint", Query: map[string]string{"point": "c19-no-such-point", "flag": "disable"}, Kind: "admin-step", Need: "admin"}}
		out = append(out, r)
		out = append(out, base("failpoint_disable", "admin", map[string]string{"point": "c19-no-such-point", "flag": "disable"}))
	case p == "/debug/query":
		out = append(out, base("debug_query_shards", "admin", map[string]string{"mod": "shards", "db": "db1"}))
	case p == "/debug/vars":
		out = append(out, base("expvar", "admin", nil))
	case p == "/debug/pprof/profile" || p == "/debug/pprof/trace":
		out = append(out, base("pprof", "admin", map[string]string{"seconds": "1"}))
	case strings.HasPrefix(p, "/debug/pprof"):
		out = append(out, base("pprof", "admin", nil))
	case p == "/runtime_config":
		out = append(out, base("runtime_config", "admin", nil))
		out = append(out, base("runtime_config_diff", "admin", map[string]string{"mode": "diff"}))
	case strings.HasPrefix(p, "/api/v1/repository") || strings.HasPrefix(p, "/api/v1/logstream") || strings.HasPrefix(p, "/repo/"):
		out = e.logVariants(rt, n)
	default:
		// a route this harness has no payload for: existing object names in the path, db parameter, empty body
		r := base("generic", "unspec", map[string]string{"db": "db1"})
		r.Path = fillPath(p, map[string]string{"repository": repoName, "logStream": streamName, "metric_store": metricStore, "tsdb": "db1", "name": "job"})
		out = append(out, r)
	}
	for i := range out {
		if out[i].Path == out[i].Pattern && strings.Contains(out[i].Pattern, "{") {
			out[i].Path = fillPath(p, map[string]string{"repository": repoName, "logStream": streamName, "metric_store": metricStore})
		}
	}
	return out
}

// logVariants: log-store API (registered only with product-type logkeeper). repository = database, log stream = retention policy + measurement.
func (e *Env) logVariants(rt RouteInfo, n int) []Req {
	p := rt.Pattern
	var out []Req
	mk := func(kind, need string, vals map[string]string, q map[string]string) *Req {
		if vals == nil {
			vals = map[string]string{}
		}
		if _, ok := vals["repository"]; !ok {
			vals["repository"] = repoName
		}
		if _, ok := vals["logStream"]; !ok {
			vals["logStream"] = streamName
		}
		out = append(out, Req{Method: rt.Method, Pattern: p, Path: fillPath(p, vals), Query: q, Kind: kind, Need: need, N: n})
		return &out[len(out)-1]
	}
	step := func(method, path string) Req {
		return Req{Method: method, Pattern: path, Path: path, Kind: "admin-step", Need: "admin"}
	}
	switch {
	case p == "/api/v1/repository/{repository}" && rt.Method == "POST":
		name := fmt.Sprintf("newrepo%d", n)
		r := mk("log_create_repository", "admin", map[string]string{"repository": name}, nil)
		r.Cleanup = []Req{step("DELETE", "/api/v1/repository/"+name)}
	case p == "/api/v1/repository/{repository}" && rt.Method == "DELETE":
		name := fmt.Sprintf("victimrepo%d", n)
		r := mk("log_delete_repository", "admin", map[string]string{"repository": name}, nil)
		r.Setup = []Req{step("POST", "/api/v1/repository/"+name)}
		r.Cleanup = []Req{step("DELETE", "/api/v1/repository/"+name)}
	case p == "/api/v1/repository/{repository}" && rt.Method == "PUT":
		mk("log_update_repository", "admin", nil, nil)
	case p == "/api/v1/repository":
		mk("log_list_repository", "auth", nil, nil)
	case p == "/api/v1/repository/{repository}":
		mk("log_show_repository", "any:"+repoName, nil, nil)
	case p == "/api/v1/logstream/{repository}/{logStream}" && rt.Method == "POST":
		name := fmt.Sprintf("newls%d", n)
		r := mk("log_create_logstream", "admin", map[string]string{"logStream": name}, nil)
		r.Body64, r.CT = b64b([]byte(`{"ttl": 3}`)), "application/json"
		r.Cleanup = []Req{step("DELETE", "/api/v1/logstream/"+repoName+"/"+name)}
	case p == "/api/v1/logstream/{repository}/{logStream}" && rt.Method == "DELETE":
		name := fmt.Sprintf("victimls%d", n)
		r := mk("log_delete_logstream", "admin", map[string]string{"logStream": name}, nil)
		s := step("POST", "/api/v1/logstream/"+repoName+"/"+name)
		s.Body64, s.CT = b64b([]byte(`{"ttl": 3}`)), "application/json"
		r.Setup = []Req{s}
		r.Cleanup = []Req{step("DELETE", "/api/v1/logstream/"+repoName+"/"+name)}
	case p == "/api/v1/logstream/{repository}/{logStream}" && rt.Method == "PUT":
		r := mk("log_update_logstream", "admin", nil, nil)
		r.Body64, r.CT = b64b([]byte(`{"ttl": 4}`)), "application/json"
		c := step("PUT", "/api/v1/logstream/"+repoName+"/"+streamName)
		c.Body64, c.CT = b64b([]byte(`{"ttl": 3}`)), "application/json"
		r.Cleanup = []Req{c}
	case p == "/api/v1/logstream/{repository}":
		mk("log_list_logstream", "any:"+repoName, nil, nil)
	case p == "/api/v1/logstream/{repository}/{logStream}":
		mk("log_show_logstream", "any:"+repoName, nil, nil)
	case strings.HasSuffix(p, "/records"):
		r := mk("log_write_records", "write:"+repoName, nil, map[string]string{"type": "json", "time_key": "time", "content_key": "msg"})
		r.Body64, r.CT = b64b([]byte(fmt.Sprintf(`{"time": %d, "msg": "c19 record %d"}`+"\n", (tsBase+int64(n)*1e9)/1e6, n))), "application/json"
	case strings.HasSuffix(p, "/upload"):
		r := mk("log_upload", "write:"+repoName, nil, map[string]string{"type": "json", "time_key": "time", "content_key": "msg"})
		r.Body64, r.CT = b64b([]byte(fmt.Sprintf(`{"time": %d, "msg": "c19 upload %d"}`+"\n", (tsBase+int64(n)*1e9)/1e6, n))), "application/json"
	case strings.HasSuffix(p, "/recalldata"), strings.HasSuffix(p, "/stream-task"):
		r := mk("log_post_task", "write:"+repoName, nil, nil)
		r.Body64, r.CT = b64b([]byte(`{}`)), "application/json"
	case strings.HasSuffix(p, "/stream-task/{taskId}"):
		mk("log_delete_task", "write:"+repoName, map[string]string{"taskId": "1"}, nil)
	default: // the read side: logs, logbycursor, consume/*, context, histogram, analytics, cursor, cursor/{cursor}
		q := map[string]string{"query": "*", "from": "1699999000000", "to": "1700099000000", "limit": "10", "reverse": "false", "timeout": "5000"}
		mk("log_read", "read:"+repoName, map[string]string{"cursor": "MHwwfDA="}, q)
	}
	return out
}

// isLogRoute: routes that exist only in the log-keeper configuration (plus the runtime-config route enabled there).
func isLogRoute(rt RouteInfo) bool {
	p := rt.Pattern
	return strings.HasPrefix(p, "/api/v1/repository") || strings.HasPrefix(p, "/api/v1/logstream") || strings.HasPrefix(p, "/repo/") || p == "/runtime_config"
}
