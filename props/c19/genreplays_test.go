package c19

import (
	"encoding/json"
	"os"
	"path/filepath"
	"testing"

	"verif/internal/ev"
)

// TestGenKnownReplays writes the replay files of the known findings (run by hand with C19_GEN_REPLAYS=<dir>).
func TestGenKnownReplays(t *testing.T) {
	dir := os.Getenv("C19_GEN_REPLAYS")
	if dir == "" {
		t.Skip("C19_GEN_REPLAYS not set")
	}
	none := Cred{Class: clNone, Transport: trNone}
	nop := validCred(clNoPriv, uNop, trBasic)
	type spec struct {
		file, cfg, msg string
		cred           Cred
		pick           func(rt RouteInfo, r Req) bool
	}
	specs := []spec{
		{"anon-failpoint", "basic", "POST /failpoint enables/disables failpoints on store and meta without any credentials", none,
			func(rt RouteInfo, r Req) bool { return rt.Pattern == "/failpoint" }},
		{"anon-debug-query", "basic", "GET /debug/query?mod=shards lists databases, retention policies, partitions and shard states without any credentials", none,
			func(rt RouteInfo, r Req) bool { return rt.Pattern == "/debug/query" && rt.Method == "GET" }},
		{"anon-debug-pprof", "basic", "/debug/pprof/* (cmdline, heap, goroutine, profile, all incl. SHOW SHARDS) answers without any credentials", none,
			func(rt RouteInfo, r Req) bool { return rt.Source == "prefix" && len(rt.Pattern) > 12 && rt.Pattern[:13] == "/debug/pprof/" && rt.Method == "GET" }},
		{"anon-debug-vars", "basic", "/debug/vars (server statistics) answers without any credentials", none,
			func(rt RouteInfo, r Req) bool { return rt.Pattern == "/debug/vars" && rt.Method == "GET" }},
		{"anon-runtime-config", "logkeeper", "GET /runtime_config (limits/overrides of the runtime-config service) answers without any credentials", none,
			func(rt RouteInfo, r Req) bool { return rt.Pattern == "/runtime_config" }},
		{"authz-create-tsdb", "basic", "POST /api/v1/tsdb/{tsdb} creates a database for any authenticated user (here: a user without any privilege)", nop,
			func(rt RouteInfo, r Req) bool { return rt.Pattern == "/api/v1/tsdb/{tsdb}" }},
		{"authz-logstore", "logkeeper", "log-store API: no handler looks at the authenticated user; a user without any privilege creates/deletes/updates repositories and log streams and reads logs", nop,
			func(rt RouteInfo, r Req) bool { return isLogRoute(rt) && rt.Pattern != "/runtime_config" && !logDataRoute(rt.Pattern) }},
	}
	for _, sp := range specs {
		e := getEnv(sp.cfg)
		cj := CaseJ{Config: sp.cfg}
		for _, rt := range e.Routes {
			for _, r := range e.variants(rt) {
				if sp.pick(rt, r) {
					cj.Items = append(cj.Items, Item{Req: r, Cred: sp.cred})
				}
			}
		}
		if len(cj.Items) == 0 {
			t.Fatalf("no item for %s", sp.file)
		}
		f := ev.Failure{Property: prop, Campaign: "known_finding", Message: sp.msg, Case: cj}
		b, _ := json.MarshalIndent(f, "", " ")
		if err := os.WriteFile(filepath.Join(dir, sp.file+".json"), append(b, '\n'), 0o644); err != nil {
			t.Fatal(err)
		}
	}
}
