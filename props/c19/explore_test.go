package c19

import (
	"fmt"
	"os"
	"testing"
)

func TestExploreAdmin(t *testing.T) {
	cfg := os.Getenv("C19_CFG")
	if cfg == "" {
		cfg = "basic"
	}
	e := startEnv(cfg, 0)
	fmt.Println("routes:", len(e.Routes), e.Source)
	for _, rt := range e.Routes {
		if e.Logkeep && !isLogRoute(rt) {
			continue
		}
		for _, r := range e.variants(rt) {
			for _, s := range r.Setup {
				e.Do(s, adminCred())
			}
			none := e.Do(r, Cred{Class: clNone})
			nop := e.Do(r, validCred(clNoPriv, uNop, trBasic))
			adm := e.Do(r, adminCred())
			for _, s := range r.Cleanup {
				e.Do(s, adminCred())
			}
			fmt.Printf("%-7s %-55s %-28s need=%-12s none=%d nop=%d admin=%s acc=%v\n", r.Method, r.Path, r.Kind, r.Need, none.Status, nop.Status, trunc(adm.short(), 110), accepted(r, adm))
		}
	}
}

func trunc(s string, n int) string {
	b := []byte(s)
	for i := range b {
		if b[i] < 32 || b[i] > 126 {
			b[i] = '.'
		}
	}
	if len(b) > n {
		b = b[:n]
	}
	return string(b)
}
