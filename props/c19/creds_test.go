package c19

import (
	"crypto/hmac"
	"crypto/sha256"
	"encoding/base64"
	"encoding/json"
	"fmt"
	"strings"
)

const sharedSecret = "verif-c19-shared-secret"

// fixture users: name -> password and privileges (bit 1 = READ, bit 2 = WRITE) per database
type userDef struct {
	Name, Pass string
	Admin      bool
	Priv       map[string]int
}

const (
	uAdmin = "admin"
	uRd1   = "user_rd1"
	uWr1   = "user_wr1"
	uAll2  = "user_all2"
	uNop   = "user_nop"
)

var fixtureUsers = []userDef{
	{Name: uAdmin, Pass: "Adm1n_Pass#19", Admin: true},
	{Name: uRd1, Pass: "Read_Pass#19", Priv: map[string]int{"db1": 1}},
	{Name: uWr1, Pass: "Writ_Pass#19", Priv: map[string]int{"db1": 2}},
	{Name: uAll2, Pass: "All2_Pass#19", Priv: map[string]int{"db2": 3}},
	{Name: uNop, Pass: "Nopr_Pass#19", Priv: map[string]int{}},
}

func userByName(n string) *userDef {
	for i := range fixtureUsers {
		if fixtureUsers[i].Name == n {
			return &fixtureUsers[i]
		}
	}
	if strings.HasPrefix(n, "mx_user") { // users of the privilege-matrix campaign
		return &userDef{Name: n, Pass: "Matrix_Pass#19", Priv: map[string]int{}}
	}
	return nil
}

// credential classes of the statement
const (
	clNone     = "none"
	clMalform  = "malformed"
	clUnknown  = "unknown_user"
	clWrongPw  = "wrong_password"
	clReadOnly = "read_only_user"  // READ on db1
	clWriteOly = "write_only_user" // WRITE on db1
	clOtherDB  = "other_db_user"   // ALL on db2 only
	clNoPriv   = "no_privilege_user"
	clAdmin    = "admin"
)

var allClasses = []string{clNone, clMalform, clUnknown, clWrongPw, clReadOnly, clWriteOly, clOtherDB, clNoPriv, clAdmin}

// transports
const (
	trNone   = "none"
	trBasic  = "basic"  // Authorization: Basic base64(user:pass)
	trQuery  = "query"  // ?u=..&p=..
	trToken  = "token"  // Authorization: Token user:pass
	trBearer = "bearer" // Authorization: Bearer <JWT signed with the shared secret>
)

var userTransports = []string{trBasic, trQuery, trToken, trBearer}

// Cred is one concrete set of credentials as put on the wire. It is self-contained (replayable).
type Cred struct {
	Class     string `json:"class"`
	Transport string `json:"transport"`
	Variant   string `json:"variant,omitempty"`
	User      string `json:"user,omitempty"` // the fixture user this credential authenticates as ("" = nobody)
	Header    string `json:"header,omitempty"`
	U         string `json:"u,omitempty"`
	P         string `json:"p,omitempty"`
	HasUP     bool   `json:"has_up,omitempty"`
}

func (c Cred) Authenticated() bool { return c.User != "" }

func b64(s string) string { return base64.StdEncoding.EncodeToString([]byte(s)) }

func jwtHS256(secret string, header, claims map[string]any) string {
	enc := func(v any) string {
		b, _ := json.Marshal(v)
		return base64.RawURLEncoding.EncodeToString(b)
	}
	signing := enc(header) + "." + enc(claims)
	m := hmac.New(sha256.New, []byte(secret))
	m.Write([]byte(signing))
	return signing + "." + base64.RawURLEncoding.EncodeToString(m.Sum(nil))
}

// far future / past expiry as fixed numbers: no wall clock in the generated data (2100-01-01, 2001-09-09)
const expFuture = 4102444800
const expPast = 1000000000

func bearerFor(user string) string {
	return "Bearer " + jwtHS256(sharedSecret, map[string]any{"alg": "HS256", "typ": "JWT"}, map[string]any{"username": user, "exp": expFuture})
}

func validCred(class, user, transport string) Cred {
	u := userByName(user)
	c := Cred{Class: class, Transport: transport, User: user}
	switch transport {
	case trBasic:
		c.Header = "Basic " + b64(u.Name+":"+u.Pass)
	case trQuery:
		c.U, c.P, c.HasUP = u.Name, u.Pass, true
	case trToken:
		c.Header = "Token " + u.Name + ":" + u.Pass
	case trBearer:
		c.Header = bearerFor(u.Name)
	}
	return c
}

func classUser(class string) string {
	switch class {
	case clReadOnly:
		return uRd1
	case clWriteOly:
		return uWr1
	case clOtherDB:
		return uAll2
	case clNoPriv:
		return uNop
	case clAdmin:
		return uAdmin
	}
	return ""
}

// malformedVariants: credentials that are present but cannot be understood or verified.
var malformedVariants = []string{
	"basic_not_base64", "basic_no_colon", "basic_empty_user", "basic_empty", "scheme_only_basic", "scheme_only_bearer", "unknown_scheme",
	"token_no_colon", "token_empty_user", "bearer_garbage", "bearer_alg_none", "bearer_wrong_secret", "bearer_expired", "bearer_no_exp",
	"bearer_no_username", "bearer_username_not_string", "bearer_empty_username", "query_empty_user", "query_empty_password", "query_only_user",
	"bearer_rs256_header", "lowercase_bearer_admin", "basic_trailing_garbage",
}

func malformedCred(variant string) Cred {
	c := Cred{Class: clMalform, Variant: variant, Transport: trBasic}
	adm := userByName(uAdmin)
	switch variant {
	case "basic_not_base64":
		c.Header = "Basic !!!not-base64!!!"
	case "basic_no_colon":
		c.Header = "Basic " + b64(adm.Name)
	case "basic_empty_user":
		c.Header = "Basic " + b64(":"+adm.Pass)
	case "basic_empty":
		c.Header = "Basic " + b64(":")
	case "scheme_only_basic":
		c.Header = "Basic"
	case "scheme_only_bearer":
		c.Header, c.Transport = "Bearer", trBearer
	case "unknown_scheme":
		c.Header = "Negotiate " + b64(adm.Name+":"+adm.Pass)
	case "token_no_colon":
		c.Header, c.Transport = "Token "+adm.Name, trToken
	case "token_empty_user":
		c.Header, c.Transport = "Token :"+adm.Pass, trToken
	case "bearer_garbage":
		c.Header, c.Transport = "Bearer abc.def.ghi", trBearer
	case "bearer_alg_none":
		tok := jwtHS256("", map[string]any{"alg": "none", "typ": "JWT"}, map[string]any{"username": adm.Name, "exp": expFuture})
		tok = tok[:strings.LastIndex(tok, ".")+1] // unsigned
		c.Header, c.Transport = "Bearer "+tok, trBearer
	case "bearer_wrong_secret":
		c.Header, c.Transport = "Bearer "+jwtHS256("not-the-secret", map[string]any{"alg": "HS256", "typ": "JWT"}, map[string]any{"username": adm.Name, "exp": expFuture}), trBearer
	case "bearer_expired":
		c.Header, c.Transport = "Bearer "+jwtHS256(sharedSecret, map[string]any{"alg": "HS256", "typ": "JWT"}, map[string]any{"username": adm.Name, "exp": expPast}), trBearer
	case "bearer_no_exp":
		c.Header, c.Transport = "Bearer "+jwtHS256(sharedSecret, map[string]any{"alg": "HS256", "typ": "JWT"}, map[string]any{"username": adm.Name}), trBearer
	case "bearer_no_username":
		c.Header, c.Transport = "Bearer "+jwtHS256(sharedSecret, map[string]any{"alg": "HS256", "typ": "JWT"}, map[string]any{"exp": expFuture}), trBearer
	case "bearer_username_not_string":
		c.Header, c.Transport = "Bearer "+jwtHS256(sharedSecret, map[string]any{"alg": "HS256", "typ": "JWT"}, map[string]any{"username": 7, "exp": expFuture}), trBearer
	case "bearer_empty_username":
		c.Header, c.Transport = "Bearer "+jwtHS256(sharedSecret, map[string]any{"alg": "HS256", "typ": "JWT"}, map[string]any{"username": "", "exp": expFuture}), trBearer
	case "bearer_rs256_header":
		c.Header, c.Transport = "Bearer "+jwtHS256(sharedSecret, map[string]any{"alg": "RS256", "typ": "JWT"}, map[string]any{"username": adm.Name, "exp": expFuture}), trBearer
	case "lowercase_bearer_admin":
		// a valid token under a scheme name the server does not know ("bearer"): not parseable as any transport
		c.Header, c.Transport = "bearer "+jwtHS256(sharedSecret, map[string]any{"alg": "HS256", "typ": "JWT"}, map[string]any{"username": adm.Name, "exp": expFuture}), trBearer
	case "basic_trailing_garbage":
		c.Header = "Basic " + b64(adm.Name+":"+adm.Pass) + " x"
	case "query_empty_user":
		c.U, c.P, c.HasUP, c.Transport = "", adm.Pass, true, trQuery
	case "query_empty_password":
		c.U, c.P, c.HasUP, c.Transport = adm.Name, "", true, trQuery
	case "query_only_user":
		c.U, c.HasUP, c.Transport = adm.Name, true, trQuery
	default:
		panic("unknown malformed variant " + variant)
	}
	return c
}

// unknownUserCred: a syntactically fine credential naming a user that does not exist
// (bearer: a correctly signed token for a user that does not exist).
func unknownUserCred(transport string, which int) Cred {
	names := []string{"nobody_c19", "ADMIN", "admin ", "user_rd", "root"}
	n := names[which%len(names)]
	pw := userByName(uAdmin).Pass
	c := Cred{Class: clUnknown, Transport: transport, Variant: n}
	switch transport {
	case trBasic:
		c.Header = "Basic " + b64(n+":"+pw)
	case trQuery:
		c.U, c.P, c.HasUP = n, pw, true
	case trToken:
		c.Header = "Token " + n + ":" + pw
	case trBearer:
		c.Header = bearerFor(n)
	}
	return c
}

// wrongPasswordCred: an existing user with a password that is not theirs. victim names the user whose failed-login
// counter is touched (the harness resets it with a successful login afterwards: 5 failures lock a user for 30 s).
func wrongPasswordCred(transport string, victim string, which int) Cred {
	u := userByName(victim)
	var pw string
	switch which % 6 {
	case 5:
		pw = "" // empty password (header transports only; ?u=x&p= is "no credentials" for the server)
		if transport == trQuery {
			transport = trBasic
		}
	case 0:
		pw = "Wrong_Pass#19"
	case 1:
		pw = u.Pass + "x"
	case 2:
		pw = u.Pass[:len(u.Pass)-1]
	case 3:
		pw = strings.ToLower(u.Pass)
	default:
		pw = userByName(uRd1).Pass // another user's password
		if victim == uRd1 {
			pw = userByName(uAdmin).Pass
		}
	}
	c := Cred{Class: clWrongPw, Transport: transport, Variant: fmt.Sprintf("%s/%d", victim, which%6)}
	switch transport {
	case trQuery:
		c.U, c.P, c.HasUP = u.Name, pw, true
	case trToken:
		c.Header = "Token " + u.Name + ":" + pw
	default:
		c.Transport = trBasic
		c.Header = "Basic " + b64(u.Name+":"+pw)
	}
	return c
}

func wrongPwVictim(c Cred) string {
	if c.Class != clWrongPw {
		return ""
	}
	if i := strings.Index(c.Variant, "/"); i > 0 {
		return c.Variant[:i]
	}
	return ""
}
