package c19

import (
	"encoding/json"
	"fmt"
	"os"
	"sort"
	"strconv"
	"strings"
	"sync"
	"testing"
	"time"

	"pgregory.net/rapid"
	"verif/internal/bb"
	"verif/internal/ev"
)

const prop = "C19"

func TestMain(m *testing.M) {
	code := m.Run()
	ev.Flush()
	bb.CleanupAll()
	os.Exit(code)
}

// ------------------------------------------------------------------------------------------ environments

var (
	envMu sync.Mutex
	envs  = map[string]*Env{}
)

func getEnv(cfg string) *Env {
	envMu.Lock()
	defer envMu.Unlock()
	if e := envs[cfg]; e != nil {
		if !e.S.Alive() {
			bb.Fatal("server of configuration %s is gone: %s", cfg, e.S.TailLog(1500))
		}
		return e
	}
	inst := 0
	if cfg == "logkeeper" {
		inst = 1
	}
	e := startEnv(cfg, inst)
	envs[cfg] = e
	return e
}

func cfgFromEnv() string {
	if c := os.Getenv("C19_CFG"); c != "" {
		return c
	}
	return "basic"
}

// ------------------------------------------------------------------------------------------ known findings

// Routes that, on the pinned tree, act for callers they should refuse. Keyed by finding kind + method + pattern, so that
// a NEW route with the same weakness is still a violation. Each key is covered by a replay under replays/C19/.
//   anon:  answers without any credentials although it is not a liveness/status/pre-flight route
//   authz: answers any authenticated user although it changes the catalogue / reads or writes data of a database
func knownFinding(kind string, r Req) string {
	p := r.Pattern
	switch kind {
	case "anon":
		switch {
		// (anon-failpoint: fixed in /repo 7651ed3, judged like every other route; replay = regression case)
		case p == "/debug/query":
			return "anon-debug-query"
		case p == "/debug/vars":
			return "anon-debug-vars"
		case strings.HasPrefix(p, "/debug/pprof/"):
			return "anon-debug-pprof"
		case p == "/runtime_config" && r.Method == "GET":
			return "anon-runtime-config"
		}
	case "authz":
		switch {
		// (authz-create-tsdb: fixed in /repo aa09e73, judged like every other route; replay = regression case)
		case knownLogRoutes[r.Method+" "+p]:
			return "authz-logstore"
		}
	}
	return ""
}

// the log-store API as registered on the pinned tree (none of its handlers looks at the authenticated user)
var knownLogRoutes = map[string]bool{
	"POST /api/v1/repository/{repository}": true, "DELETE /api/v1/repository/{repository}": true, "GET /api/v1/repository": true,
	"GET /api/v1/repository/{repository}": true, "PUT /api/v1/repository/{repository}": true,
	"POST /api/v1/logstream/{repository}/{logStream}": true, "DELETE /api/v1/logstream/{repository}/{logStream}": true,
	"GET /api/v1/logstream/{repository}": true, "GET /api/v1/logstream/{repository}/{logStream}": true, "PUT /api/v1/logstream/{repository}/{logStream}": true,
	"POST /repo/{repository}/logstreams/{logStream}/records": true, "POST /repo/{repository}/logstreams/{logStream}/upload": true,
	"GET /repo/{repository}/logstreams/{logStream}/logs": true, "GET /repo/{repository}/logstreams/{logStream}/logbycursor": true,
	"GET /repo/{repository}/logstreams/{logStream}/consume/logs": true, "GET /repo/{repository}/logstreams/{logStream}/consume/cursor-time": true,
	"GET /repo/{repository}/logstreams/{logStream}/consume/cursors": true, "GET /repo/{repository}/logstreams/{logStream}/context": true,
	"GET /repo/{repository}/logstreams/{logStream}/histogram": true, "GET /repo/{repository}/logstreams/{logStream}/analytics": true,
	"GET /repo/{repository}/logstreams/{logStream}/cursor": true, "GET /repo/{repository}/logstreams/{logStream}/cursor/{cursor}": true,
	"POST /repo/{repository}/logstreams/{logStream}/recalldata": true, "POST /repo/{repository}/logstreams/{logStream}/stream-task": true,
	"DELETE /repo/{repository}/logstreams/{logStream}/stream-task/{taskId}": true,
}

// ------------------------------------------------------------------------------------------ the oracle

// sufficient: does the statement of the property allow this caller to do what the request asks?
// known=false: the requirement of the route is not specified for authenticated callers (only unauthenticated ones are judged).
func sufficient(c Cred, need string) (ok bool, known bool) {
	if need == "public" {
		return true, true
	}
	if !c.Authenticated() {
		return false, true
	}
	u := userByName(c.User)
	if u.Admin {
		return true, true
	}
	f := strings.Split(need, ":")
	switch f[0] {
	case "auth":
		return true, true
	case "admin":
		return false, true
	case "read":
		return u.Priv[f[1]]&1 != 0, true
	case "write":
		return u.Priv[f[1]]&2 != 0, true
	case "rw":
		return u.Priv[f[1]]&1 != 0 && u.Priv[f[2]]&2 != 0, true
	case "reads": // READ on every named database (statements reading several databases)
		for _, d := range f[1:] {
			if u.Priv[d]&1 == 0 {
				return false, true
			}
		}
		return true, true
	case "any":
		return u.Priv[f[1]] != 0, true
	}
	return false, false
}

type Item struct {
	Req  Req  `json:"req"`
	Cred Cred `json:"cred"`
}

type CaseJ struct {
	Config string   `json:"config"`
	Items  []Item   `json:"items,omitempty"`
	Matrix []string `json:"matrix_ops,omitempty"`
}

type verdict struct {
	Violation string // "" = holds
	Harness   string // harness problem (inconclusive)
	NT        bool   // the same request is accepted with admin credentials
	Classes   []string
	Known     string // known-finding key the pair falls under (then not executed in the generated run)
	Status    int
}

func needsDeepProbe(r Req) bool {
	return strings.HasPrefix(r.Kind, "user_") || strings.HasPrefix(r.Kind, "ctrl_") || strings.HasPrefix(r.Kind, "failpoint") || r.Kind == "generic"
}

// settle: two consecutive equal snapshots (asynchronous tails of earlier administrator actions have died down)
func (e *Env) settle(deep bool, n int, targets []Target) Snapshot {
	prev := e.probe(deep, n, targets)
	for i := 0; i < 20; i++ {
		cur := e.probe(deep, n, targets)
		if diffSnap(prev, cur) == "" {
			return cur
		}
		prev = cur
		time.Sleep(50 * time.Millisecond)
	}
	return prev
}

// judge runs one (request, credentials) pair against the property. skipKnown: pairs under a known finding are not executed.
func (e *Env) judge(r Req, c Cred, skipKnown bool) verdict {
	var v verdict
	suff, specified := sufficient(c, r.Need)
	v.Classes = append(v.Classes, "class:"+c.Class, "transport:"+c.Transport, "kind:"+kindGroup(r.Kind), "need:"+strings.Split(r.Need, ":")[0])
	if r.Need == "public" {
		resp := e.Do(r, c)
		v.Status = resp.Status
		if resp.Err != "" {
			v.Harness = "transport error on a public route: " + resp.Err
			return v
		}
		v.Classes = append(v.Classes, fmt.Sprintf("public_answered_%dxx", resp.Status/100))
		return v
	}
	if !specified {
		v.Classes = append(v.Classes, "unjudged_requirement_unspecified")
		return v
	}
	if !suff {
		// a route that serves anonymous callers serves every other insufficient caller too
		k := knownFinding("anon", r)
		if k == "" && c.Authenticated() {
			k = knownFinding("authz", r)
		}
		if k != "" {
			v.Known = k
			if skipKnown {
				return v
			}
		}
	}
	// log-keeper configuration: the administrator's own run is left out where it would write rows (crashes that product type)
	if e.Logkeep && suff && logDataRoute(r.Pattern) {
		v.Classes = append(v.Classes, "skipped_would_write_rows")
		return v
	}
	adminRunOK := !e.Logkeep || (isLogRoute(RouteInfo{Method: r.Method, Pattern: r.Pattern}) && !logDataRoute(r.Pattern))
	for _, s := range r.Setup {
		if resp := e.adminStep(s); !accepted(s, resp) {
			v.Harness = fmt.Sprintf("setup step %s %s %q refused: %s%s", s.Method, s.Path, s.Text, resp.short(), resp.Err)
			e.cleanup(r)
			return v
		}
	}
	defer e.cleanup(r)
	deep := needsDeepProbe(r)
	var before Snapshot
	if !suff {
		before = e.settle(deep, r.N, r.Targets)
	}
	resp := e.Do(r, c)
	v.Status = resp.Status
	if vic := wrongPwVictim(c); vic != "" {
		// a successful login resets the failed-login counter of the user (5 failures lock a user for 30 s)
		e.Do(Req{Method: "GET", Pattern: "/query", Path: "/query", Query: map[string]string{"q": "SHOW DATABASES"}}, validCred("", vic, trBasic))
	}
	if resp.Err != "" {
		if !e.S.Alive() {
			// cannot be attributed to this request (the writer works asynchronously): never reported as a violation
			v.Harness = fmt.Sprintf("the server died around %s %s with %s credentials: %s", r.Method, r.Path, c.Class, e.S.PanicInLogs())
		} else {
			v.Harness = "transport error: " + resp.Err
		}
		return v
	}
	if suff {
		if accepted(r, resp) {
			v.Classes = append(v.Classes, "sufficient_accepted")
		} else if resp.Status == 401 || resp.Status == 403 {
			v.Classes = append(v.Classes, "sufficient_refused_auth")
		} else {
			v.Classes = append(v.Classes, "sufficient_refused_other")
		}
		return v
	}
	// insufficient credentials: rejected with 401/403 and nothing happened
	rejected := resp.Status == 401 || resp.Status == 403
	after := e.probe(deep, r.N, r.Targets)
	d := diffSnap(before, after)
	if d != "" && onlyRowDecrease(before, after) {
		v.Classes = append(v.Classes, "row_count_decreased_unattributed")
		d = ""
	}
	// a side effect persists; a difference that is gone a moment later is a transient read anomaly of the engine
	// (observed: a row count one short while a dropped measurement of the same database is being removed in the background)
	for i := 0; i < 3 && d != ""; i++ {
		time.Sleep(400 * time.Millisecond)
		again := e.probe(deep, r.N, r.Targets)
		if diffSnap(before, again) == "" {
			v.Classes = append(v.Classes, "transient_difference_ignored")
			d = ""
		}
	}
	var adminResp Resp
	adminAccepted := false
	if adminRunOK {
		adminResp = e.Do(r, adminCred())
		adminAccepted = accepted(r, adminResp)
	} else {
		v.Classes = append(v.Classes, "admin_run_skipped")
	}
	v.NT = adminAccepted
	if adminAccepted {
		v.Classes = append(v.Classes, "admin_accepts")
	} else if adminRunOK {
		v.Classes = append(v.Classes, "admin_refused_too")
	}
	switch {
	case d != "":
		v.Violation = fmt.Sprintf("%s %s (%s) with %s credentials (%s%s) answered %s and changed the server state: %s",
			r.Method, r.Path, r.Kind, c.Class, c.Transport, variantSuffix(c), resp.short(), d+" [last requests: "+e.lastRequests()+"]")
	case rejected:
	case c.Authenticated() && !accepted(r, resp) && adminRunOK && !adminAccepted:
		// an authenticated caller without the privilege, and a request that the administrator is refused too: the refusal is
		// not attributable (the request is unacceptable for everybody); nothing happened; not judged further
		v.Classes = append(v.Classes, "refused_like_admin")
	case c.Authenticated() && !accepted(r, resp) && !adminRunOK:
		v.Classes = append(v.Classes, "refused_unattributed")
	default:
		v.Violation = fmt.Sprintf("%s %s (%s, needs %s) with %s credentials (%s%s) was not rejected with 401/403: the handler answered %s",
			r.Method, r.Path, r.Kind, r.Need, c.Class, c.Transport, variantSuffix(c), resp.short())
	}
	return v
}

func logDataRoute(p string) bool {
	return strings.HasSuffix(p, "/records") || strings.HasSuffix(p, "/upload") || strings.HasSuffix(p, "/recalldata") || strings.Contains(p, "/stream-task")
}

func variantSuffix(c Cred) string {
	if c.Variant != "" {
		return "/" + c.Variant
	}
	return ""
}

func (e *Env) cleanup(r Req) {
	for _, s := range r.Cleanup {
		e.adminStep(s)
	}
}

func kindGroup(k string) string {
	for _, p := range []string{"read", "show", "select_into", "ddl", "user", "multi", "write", "prom", "otlp", "fence", "ctrl", "backup", "failpoint", "pprof", "log", "status"} {
		if strings.HasPrefix(k, p) {
			return p
		}
	}
	return k
}

// ------------------------------------------------------------------------------------------ generators

func genCred(t *rapid.T) Cred {
	class := rapid.SampledFrom(allClasses).Draw(t, "class")
	switch class {
	case clNone:
		return Cred{Class: clNone, Transport: trNone}
	case clMalform:
		return malformedCred(rapid.SampledFrom(malformedVariants).Draw(t, "malformed"))
	case clUnknown:
		return unknownUserCred(rapid.SampledFrom(userTransports).Draw(t, "transport"), rapid.IntRange(0, 4).Draw(t, "who"))
	case clWrongPw:
		victim := rapid.SampledFrom([]string{uAdmin, uAdmin, uRd1, uWr1, uAll2}).Draw(t, "victim")
		return wrongPasswordCred(rapid.SampledFrom([]string{trBasic, trQuery, trToken}).Draw(t, "transport"), victim, rapid.IntRange(0, 5).Draw(t, "pw"))
	}
	return validCred(class, classUser(class), rapid.SampledFrom(userTransports).Draw(t, "transport"))
}

func report(t *rapid.T, c *ev.Case, e *Env, it Item, v verdict) {
	for _, k := range v.Classes {
		c.Class(k)
	}
	if v.Known != "" {
		c.Excluded(v.Known)
		return
	}
	cj := CaseJ{Config: e.Name, Items: []Item{it}}
	c.Sample(map[string]any{"route": it.Req.Method + " " + it.Req.Pattern, "kind": it.Req.Kind, "class": it.Cred.Class, "transport": it.Cred.Transport, "status": v.Status})
	if v.Harness != "" {
		bb.Fatal("%s", v.Harness)
	}
	if v.NT {
		c.Nontrivial([]string{e.Name, it.Req.Method, it.Req.Pattern, it.Req.Kind, it.Req.Need, it.Cred.Class, it.Cred.Transport, it.Cred.Variant})
	}
	if v.Violation != "" {
		c.Failf(t, prop, cj, "%s", v.Violation)
	}
}

// TestRouteCred: route x payload x credential class x transport, sampled.
func TestRouteCred(t *testing.T) {
	cfg := cfgFromEnv()
	e := getEnv(cfg)
	var routes []RouteInfo
	for _, rt := range e.Routes {
		if e.Logkeep && !isLogRoute(rt) && rt.Pattern != "/query" && rt.Pattern != "/ping" {
			continue // the log-keeper run concentrates on what only exists there (plus /query for catalogue statements)
		}
		routes = append(routes, rt)
	}
	var sharp []RouteInfo // routes that write data, change the catalogue or control the server (other than /query)
	for _, rt := range routes {
		switch rt.Pattern {
		case "/write", "/api/v2/write", "/api/v1/write", "/prometheus/{metric_store}/api/v1/write", "/debug/ctrl", "/backup/run", "/backup/abort",
			"/backup/status", "/api/v1/tsdb/{tsdb}", "/fence/delete_fence", "/api/v1/otlp/metrics", "/metrics":
			sharp = append(sharp, rt)
		}
		if e.Logkeep && isLogRoute(rt) && (rt.Method != "GET") {
			sharp = append(sharp, rt)
		}
	}
	campaign := "route_cred_" + cfg
	ev.Note(campaign, "route_source", e.Source)
	ev.Note(campaign, "routes_in_table", len(e.Routes))
	rapid.Check(t, ev.Prop(prop, campaign, func(t *rapid.T, c *ev.Case) {
		// /query carries most of the payload kinds and the write/control routes the sharpest effects: weighted choice,
		// the rest uniform over the whole table (where the many Prometheus routes dominate)
		var rt RouteInfo
		var r Req
		switch b := rapid.IntRange(0, 9).Draw(t, "bucket"); {
		case b <= 3 && (!e.Logkeep || b <= 1):
			rt = RouteInfo{Method: rapid.SampledFrom([]string{"GET", "POST"}).Draw(t, "qmethod"), Pattern: "/query", Source: "router"}
			vs := e.variants(rt)
			groups := map[string][]Req{}
			var names []string
			for _, v := range vs {
				g := kindGroup(v.Kind)
				if _, ok := groups[g]; !ok {
					names = append(names, g)
				}
				groups[g] = append(groups[g], v)
			}
			g := groups[rapid.SampledFrom(names).Draw(t, "kind_group")]
			r = g[rapid.IntRange(0, len(g)-1).Draw(t, "variant")]
		case b <= 5 && len(sharp) > 0:
			rt = sharp[rapid.IntRange(0, len(sharp)-1).Draw(t, "sharp_route")]
			vs := e.variants(rt)
			r = vs[rapid.IntRange(0, len(vs)-1).Draw(t, "variant")]
		default:
			rt = routes[rapid.IntRange(0, len(routes)-1).Draw(t, "route")]
			vs := e.variants(rt)
			r = vs[rapid.IntRange(0, len(vs)-1).Draw(t, "variant")]
		}
		cred := genCred(t)
		it := Item{Req: r, Cred: cred}
		c.Class("route:" + rt.Source)
		v := e.judge(r, cred, true)
		report(t, c, e, it, v)
	}))
}

// catalogueOnly: statements that touch no time-series data (the log-keeper product cannot hold plain rows)
func catalogueOnly(vs []Req) []Req {
	var out []Req
	for _, r := range vs {
		if strings.HasPrefix(r.Kind, "user_") || r.Kind == "ddl_create_database" || r.Kind == "ddl_drop_database" || r.Kind == "show_databases" ||
			r.Kind == "show_users" || r.Kind == "show_grants" || r.Kind == "show_rps" {
			out = append(out, r)
		}
	}
	return out
}

// TestNoCredExhaustive: EVERY route of the table x every payload variant, without credentials. Not sampled.
func TestNoCredExhaustive(t *testing.T) {
	cfg := cfgFromEnv()
	e := getEnv(cfg)
	campaign := "no_cred_exhaustive_" + cfg
	shard, _ := strconv.Atoi(os.Getenv("VERIF_SHARD"))
	shards, _ := strconv.Atoi(os.Getenv("VERIF_SHARDS"))
	if shards <= 0 {
		shards = 1
	}
	var keys []string
	excluded := map[string]int{}
	nreq := 0
	for i, rt := range e.Routes {
		keys = append(keys, rt.Key())
		if i%shards != shard {
			continue
		}
		for _, r := range e.variants(rt) {
			c := ev.Begin(campaign)
			cred := Cred{Class: clNone, Transport: trNone}
			v := e.judge(r, cred, true)
			for _, k := range v.Classes {
				c.Class(k)
			}
			c.Class("route:" + rt.Source)
			nreq++
			if v.Known != "" {
				c.Excluded(v.Known)
				excluded[rt.Key()]++
				c.Done()
				continue
			}
			if v.Harness != "" {
				bb.Fatal("%s", v.Harness)
			}
			c.Sample(map[string]any{"route": rt.Key(), "kind": r.Kind, "status": v.Status})
			if v.NT {
				c.Nontrivial([]string{cfg, rt.Key(), r.Kind, r.Need})
			}
			if v.Violation != "" {
				c.FailTB(t, prop, CaseJ{Config: cfg, Items: []Item{{Req: r, Cred: cred}}}, "%s", v.Violation)
			}
			c.Done()
		}
	}
	sort.Strings(keys)
	ev.Note(campaign, "exhaustive", true)
	ev.Note(campaign, "exhaustive_dimension", "every (method, pattern) of the route table of this configuration x every payload variant of the harness x credential class 'none'")
	ev.Note(campaign, "route_source", e.Source)
	ev.Note(campaign, "routes", keys)
	ev.Note(campaign, "routes_total", len(keys))
	var ex []string
	for k := range excluded {
		ex = append(ex, k)
	}
	sort.Strings(ex)
	ev.Note(campaign, fmt.Sprintf("routes_excluded_as_known_findings_shard%d", shard), ex)
	_ = nreq
}

// ------------------------------------------------------------------------------------------ privilege matrix

var matrixUsers = []string{"mx_user0", "mx_user1", "mx_user2"}
var matrixDBs = []string{"mxdb0", "mxdb1"}

const matrixPass = "Matrix_Pass#19"

var matrixOnce sync.Once

func (e *Env) matrixFixture() {
	matrixOnce.Do(func() {
		for _, db := range matrixDBs {
			e.mustAdmin("", "CREATE DATABASE "+db)
			e.mustWrite(db, fmt.Sprintf("probe,host=a v=1 %d", tsBase))
		}
		for _, u := range matrixUsers {
			e.mustAdmin("", fmt.Sprintf("CREATE USER %s WITH PASSWORD '%s'", u, matrixPass))
		}
		deadline := time.Now().Add(30 * time.Second)
		for _, db := range matrixDBs {
			for {
				r, err := e.adminQuery(db, "SELECT count(v) FROM probe")
				if err == "" && len(r.Results) == 1 && len(r.Results[0].Series) == 1 {
					break
				}
				if time.Now().After(deadline) {
					bb.Fatal("matrix fixture rows of %s not visible", db)
				}
				time.Sleep(100 * time.Millisecond)
			}
		}
	})
}

// observe: what may each user do on each database? cell = bit 1 (SELECT accepted) | bit 2 (write accepted); -1 = neither accepted nor 401/403
func (e *Env) observeMatrix(transports []string) (map[string]int, string) {
	m := map[string]int{}
	i := 0
	for _, u := range matrixUsers {
		for _, db := range matrixDBs {
			tr := transports[i%len(transports)]
			i++
			cred := validCred("matrix", u, tr)
			cell := 0
			rq := Req{Method: "POST", Pattern: "/query", Path: "/query", Query: map[string]string{"db": db, "q": "SELECT count(v) FROM probe"}, Form: true}
			rr := e.Do(rq, cred)
			switch {
			case accepted(rq, rr):
				cell |= 1
			case rr.Status == 403:
			default:
				return nil, fmt.Sprintf("read probe of %s on %s answered %s%s", u, db, rr.short(), rr.Err)
			}
			wq := writeReq(db, fmt.Sprintf("probe,host=a v=1 %d", tsBase))
			wr := e.Do(wq, cred)
			switch {
			case wr.Status == 204:
				cell |= 2
			case wr.Status == 403:
			default:
				return nil, fmt.Sprintf("write probe of %s on %s answered %s%s", u, db, wr.short(), wr.Err)
			}
			m[u+"/"+db] = cell
		}
	}
	return m, ""
}

type matrixOp struct {
	Grant bool
	Priv  int // 1 READ 2 WRITE 3 ALL
	User  string
	DB    string
}

func (o matrixOp) String() string {
	if o.Grant {
		return fmt.Sprintf("GRANT %s ON %s TO %s", privName(o.Priv), o.DB, o.User)
	}
	return fmt.Sprintf("REVOKE %s ON %s FROM %s", privName(o.Priv), o.DB, o.User)
}

// checkMatrixOp applies one GRANT/REVOKE as admin and compares the observed allowed-matrix before and after.
// Returns (violation, harness problem, changed-cell description).
func (e *Env) checkMatrixOp(before map[string]int, op string, transports []string) (map[string]int, string, string) {
	var o matrixOp
	f := strings.Fields(op)
	if len(f) != 6 {
		return nil, "", "bad matrix op " + op
	}
	o.Grant = f[0] == "GRANT"
	o.Priv = map[string]int{"READ": 1, "WRITE": 2, "ALL": 3}[f[1]]
	o.DB, o.User = f[3], f[5]
	_, errText := e.adminQuery("", op)
	after, herr := e.observeMatrix(transports)
	if herr != "" {
		return nil, "", herr
	}
	target := o.User + "/" + o.DB
	for k, b := range before {
		a := after[k]
		if k != target {
			if a != b {
				return after, fmt.Sprintf("%s changed what %s may do (allowed %s -> %s), a cell other than %s", op, k, privName(b), privName(a), target), ""
			}
			continue
		}
		if errText != "" {
			if a != b {
				return after, fmt.Sprintf("%s was refused (%s) but changed cell %s: %s -> %s", op, errText, k, privName(b), privName(a)), ""
			}
			continue
		}
		if o.Grant && a&o.Priv != o.Priv {
			return after, fmt.Sprintf("after %s the user is allowed only %s on that database", op, privName(a)), ""
		}
		if !o.Grant && a&o.Priv != 0 {
			return after, fmt.Sprintf("after %s the user is still allowed %s on that database", op, privName(a)), ""
		}
	}
	return after, "", ""
}

func TestPrivilegeMatrix(t *testing.T) {
	e := getEnv("basic")
	e.matrixFixture()
	campaign := "privilege_matrix"
	rapid.Check(t, ev.Prop(prop, campaign, func(t *rapid.T, c *ev.Case) {
		n := rapid.IntRange(1, 5).Draw(t, "ops")
		transports := []string{rapid.SampledFrom(userTransports).Draw(t, "tr0"), rapid.SampledFrom(userTransports).Draw(t, "tr1"), rapid.SampledFrom(userTransports).Draw(t, "tr2")}
		before, herr := e.observeMatrix(transports)
		if herr != "" {
			bb.Fatal("%s", herr)
		}
		var ops []string
		flips := 0
		start := mustJSON(before)
		for i := 0; i < n; i++ {
			o := matrixOp{Grant: rapid.Bool().Draw(t, "grant"), Priv: rapid.IntRange(1, 3).Draw(t, "priv"),
				User: rapid.SampledFrom(matrixUsers).Draw(t, "user"), DB: rapid.SampledFrom(matrixDBs).Draw(t, "db")}
			ops = append(ops, o.String())
			c.Op(o.String())
			after, viol, herr := e.checkMatrixOp(before, o.String(), transports)
			if herr != "" {
				bb.Fatal("%s", herr)
			}
			if viol != "" {
				c.Failf(t, prop, CaseJ{Config: "basic", Matrix: ops}, "%s", viol)
			}
			if after[o.User+"/"+o.DB] != before[o.User+"/"+o.DB] {
				flips++
				c.Class(fmt.Sprintf("flip_%s_to_%s", privName(before[o.User+"/"+o.DB]), privName(after[o.User+"/"+o.DB])))
			} else {
				c.Class("no_change")
			}
			if o.Grant {
				c.Class("grant")
			} else {
				c.Class("revoke")
			}
			before = after
		}
		c.Sample(ops)
		if flips > 0 {
			c.Nontrivial([]any{start, ops})
		}
	}))
}

func mustJSON(v any) string {
	b, _ := json.Marshal(v)
	return string(b)
}
