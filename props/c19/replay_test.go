package c19

import (
	"encoding/json"
	"fmt"
	"strings"
	"testing"

	"verif/internal/ev"
)

// TestReplay re-executes saved cases: {"config": "basic"|"logkeeper", "items": [{"req":..., "cred":...}]} or
// {"config": "basic", "matrix_ops": ["GRANT READ ON mxdb0 TO mx_user0", ...]}.
func TestReplay(t *testing.T) {
	ev.RunReplays(func(raw json.RawMessage, f ev.Failure) error {
		var cj CaseJ
		if err := json.Unmarshal(raw, &cj); err != nil || (len(cj.Items) == 0 && len(cj.Matrix) == 0) {
			return ev.InconclusiveError(fmt.Sprintf("cannot interpret case: %v", err))
		}
		if cj.Config != "basic" && cj.Config != "logkeeper" {
			return ev.InconclusiveError("unknown configuration " + cj.Config)
		}
		e := getEnv(cj.Config)
		if len(cj.Matrix) > 0 {
			e.matrixFixture()
			tr := []string{trBasic}
			before, herr := e.observeMatrix(tr)
			if herr != "" {
				return ev.InconclusiveError(herr)
			}
			for _, op := range cj.Matrix {
				after, viol, herr := e.checkMatrixOp(before, op, tr)
				if herr != "" {
					return ev.InconclusiveError(herr)
				}
				if viol != "" {
					return fmt.Errorf("%s", viol)
				}
				before = after
			}
			return nil
		}
		var viols []string
		for _, it := range cj.Items {
			// the route must still be registered: a replay of a removed route proves nothing
			found := false
			for _, rt := range e.Routes {
				if rt.Method == it.Req.Method && rt.Pattern == it.Req.Pattern {
					found = true
				}
			}
			if !found {
				continue
			}
			v := e.judge(it.Req, it.Cred, false)
			if v.Harness != "" {
				return ev.InconclusiveError(v.Harness)
			}
			if v.Violation != "" {
				viols = append(viols, v.Violation)
			}
		}
		if len(viols) > 0 {
			return fmt.Errorf("%d of %d pairs violate: %s", len(viols), len(cj.Items), strings.Join(viols, " || "))
		}
		return nil
	})
}
