from campaigns_util import B

_BASIC = {"C19_CFG": "basic"}
_LOGK = {"C19_CFG": "logkeeper"}

SPEC = {
    "pkg": "props/c19", "level": "exploration", "bins": ["ts-server"], "max_parallel": 6,
    "rule": ("black box against the real ts-server started with [http] auth-enabled = true, a shared secret, one administrator, databases db1/db2 and the users "
             "read-only(db1), write-only(db1), all(db2), no-privilege. The route table (method, path template) is read from the code under test: the HTTP handler is "
             "built in the test process from the server's own configuration file and its router is enumerated (hook H2 Handler.VerifRoutes if present, else a "
             "reflect walk of the router), plus the path prefixes Handler.ServeHTTP dispatches before the router. Two configurations: the single-node template "
             "(basic) and product-type logkeeper with the runtime-config service (registers the log-store API and /runtime_config). "
             "no_cred_exhaustive_*: EVERY route x every natural payload of the harness x no credentials (enumerated, not sampled). "
             "route_cred_*: rapid samples route x payload (for /query the statement kinds read, qualified/sub-query read, SHOW, SELECT INTO same/cross database, "
             "multi-statement read+DDL, data DDL, catalogue DDL, user administration; line protocol and v2 writes; Prometheus remote write/read/query/labels/series/"
             "metadata with and without metric store; OTLP; fence; /debug/ctrl switches; backup; failpoint; pprof; log-store management/read/write) x credential class "
             "{none, malformed (23 shapes incl. unsigned/expired/foreign-key JWT), unknown user, wrong password (incl. empty), read-only, write-only, other-database, "
             "no-privilege, admin} x transport {basic, u/p parameters, Token header, bearer JWT}. Oracle for a caller whose credentials are insufficient for what the "
             "request asks: HTTP 401/403 AND the administrator's view is unchanged (SHOW DATABASES / MEASUREMENTS / RETENTION POLICIES / USERS / GRANTS, row counts of the "
             "probe measurements, for user/ctrl kinds also: every fixture user can still log in, a constant overwrite is still accepted); 2xx or a handler-generated "
             "4xx/5xx is a violation unless the route is ping/status/OPTIONS. Non-trivial = the same request WITH admin credentials is accepted (2xx, no error in the "
             "result document), so the rejection is attributable to authentication/authorisation; distinct by (configuration, route, payload kind, requirement, class, "
             "transport, variant). privilege_matrix: generated GRANT/REVOKE {READ,WRITE,ALL} sequences over 3 users x 2 databases; after each statement the observed "
             "allowed-matrix (SELECT accepted, write accepted; per transport) may differ from the one before in the targeted (user, database) cell only, the cell must "
             "allow what was granted / refuse what was revoked; non-trivial = some cell flipped"),
    "exhaustive_note": ("campaigns no_cred_exhaustive_basic / no_cred_exhaustive_logkeeper enumerate the complete route table of the configuration (notes.routes, "
                        "notes.routes_total) x all payload variants with credential class 'none'; all other dimensions are sampled"),
    "assumptions": ["the route table of the running server equals the one of a handler built in the test process from the same configuration file by the same code "
                    "(httpd.NewHandler + the one route app/ts-sql adds: /runtime_config when the runtime-config service is enabled)",
                    "path prefixes served by Handler.ServeHTTP before the router (/debug/pprof, /debug/vars, /debug/query) are listed by hand; a probe of the in-process "
                    "handler makes the check inconclusive if some other non-router path is answered",
                    "what a route needs (read/write on the database named in the request, administrator, any authenticated user) is the harness' reading of the statement; "
                    "where that is debatable (fence match) only callers without any privilege on the database are judged",
                    "other listeners of the process (meta HTTP 8091, store/sql pprof ports, arrow flight, record-write gRPC) are not covered",
                    "the log-keeper configuration holds no time-series rows (a plain line-protocol write crashes that product type), requests that would need the "
                    "administrator to write rows there are not re-run with admin credentials (class admin_run_skipped)"],
    "campaigns": [
        {"name": "no_cred_exhaustive_basic", "run": "^TestNoCredExhaustive$", "quick": B(1, 2, 600, env=_BASIC), "thorough": B(1, 2, 900, env=_BASIC)},
        {"name": "no_cred_exhaustive_logkeeper", "run": "^TestNoCredExhaustive$", "quick": B(1, 1, 600, env=_LOGK), "thorough": B(1, 2, 900, env=_LOGK)},
        {"name": "route_cred_basic", "run": "^TestRouteCred$", "quick": B(300, 2, 600, env=_BASIC, shrinktime="5s"), "thorough": B(5000, 4, 2400, env=_BASIC, shrinktime="20s")},
        {"name": "route_cred_logkeeper", "run": "^TestRouteCred$", "quick": B(150, 1, 600, env=_LOGK, shrinktime="5s"), "thorough": B(3500, 1, 2400, env=_LOGK, shrinktime="20s")},
        {"name": "privilege_matrix", "run": "^TestPrivilegeMatrix$", "quick": B(50, 1, 600, shrinktime="5s"), "thorough": B(1300, 1, 2400, shrinktime="20s")},
    ],
}

META = {
    "engine": "bb-server",
    "technique": "black-box route x credential enumeration against the real server; route table taken from the code under test; rapid for the sampled dimensions",
    "text": ("With authentication on, every registered route is requested without credentials (complete enumeration) and with sampled credential classes and "
             "transports; insufficient callers must get 401/403 and leave the administrator's view of catalogue, data volume and switches unchanged; a generated "
             "GRANT/REVOKE sequence must change exactly the targeted (user, database) cell of the observed allowed-matrix. Routes x 'no credentials' is exhaustive for "
             "the two configurations started; everything else is exploration."),
    "note": ("Trusts the harness' table of what each route needs and its natural payloads (a route without payload knowledge gets a generic request and is judged for "
             "unauthenticated callers only). Known findings (anonymous debug/failpoint routes, routes without privilege check) are left out of the generated run by "
             "method+pattern and reported through their replays; a new route with the same weakness is a violation."),
}
