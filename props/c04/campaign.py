from campaigns_util import B

SPEC = {
    "pkg": "props/c04", "level": "exploration", "bins": ["ts-server"],
    "rule": ("generated workloads (2-6 writers each owning a series and writing a monotone counter into three fields of every point, optionally rewriting their last "
             "timestamps; 1-4 readers issuing full/range/one-series selections asc/desc; a flusher and a merge/compaction trigger at generated gaps; final SIGTERM, DROP "
             "MEASUREMENT or DROP DATABASE while the load is in flight) run against one real server; the schedule is the operating system's. Invariants checked on every answer: "
             "all points acknowledged before the query started are present with a counter >= the acknowledged one, at most one row per (series,time), rows ordered, the three "
             "fields of a row come from one write (a == b == c-0.5), no counter above the highest issued, per reader nothing seen earlier disappears or goes back; no panic, "
             "shutdown/drop returns within 120 s, contents after restart = acknowledged writes. Non-trivial: >= 1 query overlapped a flush or reorganisation call; distinct by workload"),
    "assumptions": ["schedules are sampled, not controlled; a failing schedule is not replayable (the workload is saved and re-run a few times)",
                    "the race detector is not used as an oracle (the unchanged server reports races in unrelated code)"],
    "campaigns": [
        {"name": "concurrent_clients", "run": "^TestConcurrentClients$", "quick": B(2, 10, 900, shrinktime="1s"), "thorough": B(20, 12, 3400, shrinktime="1s")},
        {"name": "drop_during_flush", "run": "^TestDropDuringFlush$", "quick": B(1, 1, 900), "thorough": B(1, 1, 900)},
    ],
}

META = {
    "engine": "bb-server",
    "technique": "randomised concurrent workloads against the real server with history invariants (rapid generates the workload, the OS the schedule)",
    "text": ("Concurrent writers, readers, flushes and reorganisations with a final close/drop under load; every query answer is checked against invariants derived from the "
             "acknowledgement history. Weak by nature for this family: interleavings are sampled, failures may not replay."),
    "note": "Trusts the harness' bookkeeping of acknowledgement times (taken under a mutex around the HTTP calls) and wall-clock bounds of 120 s for close/drop.",
}
