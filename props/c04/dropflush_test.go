package c04

import (
	"fmt"
	"testing"
	"time"

	"verif/internal/bb"
	"verif/internal/ev"
)

// dropDuringFlush scripts the window "flush has committed its data files and is about to remove its log files" with the
// stall facility of hook H1, and drops the database / measurement inside that window. Returns a violation text or "".
func dropDuringFlush(stmt string, stallPattern string) string {
	srv := bb.NewServer(bb.Options{Prop: 4, Instance: 3})
	srv.MustStart()
	defer srv.Destroy()
	srv.MustExec("", "create database "+db)
	for i := 0; i < 5; i++ {
		st, body := srv.Write(db, "", "ns", fmt.Sprintf("%s,host=a a=%di,b=%di,c=%d.5 %d", mst, i+1, i+1, i+1, tsOf(i)))
		for try := 0; st >= 500 && try < 50; try++ {
			time.Sleep(100 * time.Millisecond)
			st, body = srv.Write(db, "", "ns", fmt.Sprintf("%s,host=a a=%di,b=%di,c=%d.5 %d", mst, i+1, i+1, i+1, tsOf(i)))
		}
		if st != 204 {
			bb.Fatal("write failed: %d %s", st, body)
		}
	}
	srv.Stall(stallPattern, 1500)
	done := make(chan struct{})
	go func() { srv.Flush(); close(done) }()
	time.Sleep(400 * time.Millisecond)
	qdone := make(chan string, 1)
	go func() {
		r, err := srv.Query(db, stmt, nil)
		if err != nil {
			qdone <- "transport: " + err.Error()
			return
		}
		qdone <- r.Err
	}()
	select {
	case <-qdone:
	case <-time.After(120 * time.Second):
		return fmt.Sprintf("%q during a flush did not return within 120 s", stmt)
	}
	select {
	case <-done:
	case <-time.After(120 * time.Second):
		return "flush did not return within 120 s after " + stmt
	}
	time.Sleep(500 * time.Millisecond)
	if !srv.Alive() {
		return fmt.Sprintf("server died when %q ran while a flush was removing its log files: %s", stmt, srv.PanicInLogs())
	}
	if p := srv.PanicInLogs(); p != "" {
		return "panic: " + p
	}
	return ""
}

var dropScenarios = []struct{ name, stmt, stall string }{
	{"drop-database@log-removal", "drop database " + db, `^remove .*\.wal`},
	{"drop-measurement@log-removal", "drop measurement " + mst, `^remove .*\.wal`},
	{"drop-database@file-commit", "drop database " + db, `^rename .*\.tssp`},
	{"drop-measurement@file-commit", "drop measurement " + mst, `^rename .*\.tssp`},
	{"drop-database@file-create", "drop database " + db, `^(create|openfile) .*\.tssp`},
	{"drop-measurement@file-create", "drop measurement " + mst, `^(create|openfile) .*\.tssp`},
}

func TestDropDuringFlush(t *testing.T) {
	for _, sc := range dropScenarios {
		c := ev.Begin("drop_during_flush")
		c.Class(sc.name)
		c.Op(sc)
		if v := dropDuringFlush(sc.stmt, sc.stall); v != "" {
			c.FailTB(t, prop, map[string]any{"kind": "drop_during_flush", "scenario": sc.name}, "%s", v)
		}
		c.Nontrivial(sc.name)
		c.Sample(map[string]any{"scenario": sc.name, "statement": sc.stmt, "stalled_mutation": sc.stall})
		c.Done()
	}
}
