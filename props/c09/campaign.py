from campaigns_util import B

SPEC = {
    "pkg": "props/c09", "level": "exploration", "bins": ["ts-server"],
    "rule": ("histories on one real server (ptnum-pernode 1 or 4, max-rows-per-segment 8: many segments per file) with null-heavy columns, in four layout phases "
             "(memtable; one flushed file; more writes incl. late data + flushes; after merge/compaction), plus the overwrite_layers campaign (cells rewritten across a first ordered file, a second ordered file continuing one series, 1-2 out-of-order files and the memtable) and the dense_segments campaign (1-3 series written as runs of "
             "9-30 consecutive rows per flush, so chunks have 2-4 segments that a time range covers fully or cuts; wide value domain); each generated aggregate query (count/sum/mean/min/max/first/last, "
             "1-3 calls, overall / per tag group / per time bucket, asc/desc, optional tag filter, field filter, exact-statistics hint; time-range ends on data "
             "timestamps +-1) is paired with the plain select of the same WHERE and must equal the function applied by internal/qref to the rows the plain select "
             "returned. Without hint/filter/bucket only histories in which no (series,time) is written by two requests are used (the statement's precondition). "
             "Non-trivial: the range covers some rows and cuts others, or mixes memtable with files; distinct by (set of pair shapes, op list)"),
    "assumptions": ["the paired plain select is the ground truth for the pair (if it disagrees with the model the pair is attributed to C02 and skipped, counted)",
                    "tie choices (equal timestamps / equal extremes) and count over an empty bucket are admissible sets as in C08"],
    "campaigns": [
        {"name": "overwrite_layers", "run": "^TestOverwriteLayers$", "quick": B(4, 4, 900, shrinktime="60s"), "thorough": B(40, 6, 3400, shrinktime="180s")},
        {"name": "dense_segments", "run": "^TestDenseSegments$", "quick": B(7, 6, 900, shrinktime="60s"), "thorough": B(60, 8, 3400, shrinktime="180s")},
        {"name": "aggregate_pairs", "run": "^TestAggregatePairs$", "quick": B(4, 10, 900, shrinktime="60s"), "thorough": B(60, 14, 3400, shrinktime="180s")},
    ],
}

META = {
    "engine": "bb-server",
    "technique": "differential PBT: aggregate query vs the same function applied to the rows of the paired plain select (rapid, real server)",
    "text": ("Generated histories and aggregate/plain-select pairs on the real server; the aggregate path (pre-aggregated statistics, first/last readers, partially covered "
             "segments) is compared with a reference aggregation of the server's own plain rows. Exploration only."),
    "note": "Trusts internal/qref's aggregation semantics (admissible sets for ties) and the plain select as ground truth for the pair.",
}
