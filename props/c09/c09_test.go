package c09

import (
	"encoding/json"
	"fmt"
	"os"
	"sort"
	"testing"

	"pgregory.net/rapid"
	"verif/internal/bb"
	"verif/internal/ev"
	"verif/internal/hist"
	"verif/internal/model"
	"verif/internal/qref"
)

const prop = "C09"

func TestMain(m *testing.M) {
	code := m.Run()
	ev.Flush()
	bb.CleanupAll()
	os.Exit(code)
}

var tagSets = []map[string]string{{"host": "a"}, {"host": "b"}, {"host": "c"}, {"host": "a", "dc": "x"}, {"host": "b", "dc": "y"}}

const mst = "m0"

type Op struct {
	Kind   string        `json:"op"` // write flush reorg pair
	Points []hist.PointJ `json:"points,omitempty"`
	Cmd    string        `json:"cmd,omitempty"`
	Query  *qref.Query   `json:"query,omitempty"`
}

type world struct {
	h           *hist.H
	c           *ev.Case
	fail        func(format string, a ...any)
	noOverwrite bool
}

// plainOf returns the plain select paired with an aggregate query: same WHERE, all fields, per series.
func plainOf(q qref.Query) qref.Query {
	p := qref.Query{Mst: q.Mst, Star: true, HasTMin: q.HasTMin, TMin: q.TMin, HasTMax: q.HasTMax, TMax: q.TMax, Tag: q.Tag, Field: q.Field, GroupAll: true}
	return p
}

// rowsOfAnswer converts the answer of a `select * ... group by *` into rows.
func rowsOfAnswer(series []bb.Series) ([]qref.Row, error) {
	obs, err := bb.RowsOf(series, hist.Kinds)
	if err != nil {
		return nil, err
	}
	tagsOf := map[string]map[string]string{}
	for _, se := range series {
		tagsOf[model.SeriesKeyOf(se.Name, se.Tags)] = se.Tags
	}
	var rows []qref.Row
	for key, byT := range obs {
		for t, fs := range byT {
			rows = append(rows, qref.Row{Tags: tagsOf[key], Time: t, Fields: fs})
		}
	}
	sort.Slice(rows, func(i, j int) bool {
		if rows[i].Time != rows[j].Time {
			return rows[i].Time < rows[j].Time
		}
		return model.SeriesKeyOf("", rows[i].Tags) < model.SeriesKeyOf("", rows[j].Tags)
	})
	return rows, nil
}

func (w *world) exec(op Op) (paired bool) {
	w.c.Op(op)
	h := w.h
	switch op.Kind {
	case "write":
		h.Write(op.Points)
	case "flush":
		h.Flush()
	case "reorg":
		h.Reorg(op.Cmd)
	case "pair":
		q := *op.Query
		p := plainOf(q)
		pres, err := h.Srv.Query(h.DB, p.SQL(), nil)
		if err != nil {
			bb.Fatal("query transport error: %v", err)
		}
		if pres.Err != "" {
			w.fail("plain select %q failed: %s", p.SQL(), pres.Err)
		}
		var pseries []bb.Series
		if len(pres.Results) > 0 {
			pseries = pres.Results[0].Series
		}
		// a plain select that disagrees with the model is C02's business, not C09's
		if d := qref.Compare(qref.Eval(p, qref.RowsFromStore(h.St, mst), hist.FieldNames), pseries); d != "" && (q.Field == nil || w.noOverwrite) {
			w.c.Class("plain-select-disagrees-with-model(attributed-to-C02)")
			return false
		}
		rows, err := rowsOfAnswer(pseries)
		if err != nil {
			w.fail("plain select %q: %v", p.SQL(), err)
		}
		// the plain select carries the same WHERE (field predicate included): the function is applied to its rows as they are
		qa := q
		qa.Field = nil
		exp := qref.Eval(qa, rows, hist.FieldNames)
		ares, err := h.Srv.Query(h.DB, q.SQL(), nil)
		if err != nil {
			bb.Fatal("query transport error: %v", err)
		}
		if ares.Err != "" {
			w.fail("aggregate query %q failed: %s", q.SQL(), ares.Err)
		}
		var aseries []bb.Series
		if len(ares.Results) > 0 {
			aseries = ares.Results[0].Series
		}
		if d := qref.Compare(exp, aseries); d != "" {
			o, u, lv := h.Layout()
			w.fail("aggregate %q differs from the function applied to the rows of the plain select %q: %s [files ordered=%d unordered=%d maxlevel=%d] raw=%.500s", q.SQL(), p.SQL(), d, o, u, lv, ares.Raw)
		}
		return true
	default:
		bb.Fatal("unknown op %q", op.Kind)
	}
	return false
}

type gen struct {
	cursor      int
	noOverwrite bool
	request     int
	written     map[string]int
	times       map[int]bool
}

func (g *gen) batch(t *rapid.T, n int, late bool) []hist.PointJ {
	g.request++
	ps := make([]hist.PointJ, n)
	for i := range ps {
		p := hist.PointJ{Mst: mst, Tags: rapid.SampledFrom(tagSets).Draw(t, "tags"), Fields: map[string]string{}}
		if late {
			p.T = rapid.IntRange(0, 20).Draw(t, "tlate")
		} else {
			p.T = rapid.IntRange(0, 63).Draw(t, "t")
		}
		if g.noOverwrite {
			for k := 0; k < 64; k++ {
				key := fmt.Sprintf("%v|%d", p.Tags, p.T)
				if r, ok := g.written[key]; !ok || r == g.request {
					break
				}
				p.T = (p.T + 1) % 64
			}
			g.written[fmt.Sprintf("%v|%d", p.Tags, p.T)] = g.request
		}
		g.times[p.T] = true
		// null-heavy columns: usually one or two fields per row
		mask := rapid.SampledFrom([]int{1, 2, 4, 8, 3, 5, 6, 12, 15, 4, 2}).Draw(t, "fieldmask")
		for j, n := range hist.FieldNames {
			if mask&(1<<j) == 0 {
				continue
			}
			small := rapid.IntRange(-4, 12).Draw(t, "val")
			switch n {
			case "i":
				p.Fields[n] = fmt.Sprint(small)
			case "f":
				p.Fields[n] = fmt.Sprintf("%g", float64(small)/4)
			case "s":
				p.Fields[n] = fmt.Sprintf("v%d", small)
			default:
				p.Fields[n] = fmt.Sprint(small%2 == 0)
			}
		}
		ps[i] = p
	}
	return ps
}

// denseBatch writes, for 1-3 series, a run of consecutive timestamps starting at the cursor: with max-rows-per-segment = 8 one flush
// of it gives chunks of several segments, so that time ranges cover some segments fully and cut others (the stored per-segment
// statistics are then combined with rows read from the cut segments). Values come from a wide domain so that segment extremes differ.
func (g *gen) denseBatch(t *rapid.T, nser int) []hist.PointJ {
	g.request++
	n := rapid.IntRange(9, min(30, 63-g.cursor)).Draw(t, "rows")
	var ps []hist.PointJ
	for s := 0; s < nser; s++ {
		// value trend of the series: random, or counter-like (growing / falling with time: the extreme of a chunk then sits on the
		// first or last row of a segment, which the first()/last() readers short-cut through the stored min/max)
		trend := rapid.SampledFrom([]int{0, 0, 1, -1}).Draw(t, "trend")
		for k := 0; k < n; k++ {
			if rapid.IntRange(0, 9).Draw(t, "gap") == 0 {
				continue
			}
			p := hist.PointJ{Mst: mst, Tags: tagSets[s], T: g.cursor + k, Fields: map[string]string{}}
			mask := 15
			if rapid.IntRange(0, 2).Draw(t, "partial") == 0 {
				mask = rapid.IntRange(1, 15).Draw(t, "fieldmask")
			}
			for j, fn := range hist.FieldNames {
				if mask&(1<<j) == 0 {
					continue
				}
				v := rapid.IntRange(-40, 40).Draw(t, "val")
				if trend != 0 {
					v = trend * (g.cursor + k - 30)
				}
				switch fn {
				case "i":
					p.Fields[fn] = fmt.Sprint(v)
				case "f":
					p.Fields[fn] = fmt.Sprintf("%g", float64(v)/4)
				case "s":
					p.Fields[fn] = fmt.Sprintf("v%d", v)
				default:
					p.Fields[fn] = fmt.Sprint(v%2 == 0)
				}
			}
			g.written[fmt.Sprintf("%v|%d", p.Tags, p.T)] = g.request
			g.times[p.T] = true
			ps = append(ps, p)
		}
	}
	g.cursor += n
	return ps
}

func (g *gen) query(t *rapid.T) qref.Query {
	q := qref.Query{Mst: mst}
	// time range: ends on data timestamps +-1 (segment / file boundaries are data timestamps), or far outside
	var ts []int
	for k := range g.times {
		ts = append(ts, k)
	}
	sort.Ints(ts)
	bucket := rapid.IntRange(0, 2).Draw(t, "bucketed") == 0
	switch k := rapid.IntRange(0, 4).Draw(t, "range"); {
	case k == 0 && !bucket:
	case k <= 1:
		q.HasTMin, q.HasTMax, q.TMin, q.TMax = true, true, hist.TS(0)-3e9, hist.TS(63)+3e9
	default:
		a := rapid.SampledFrom(ts).Draw(t, "ra")
		b := rapid.SampledFrom(ts).Draw(t, "rb")
		if a > b {
			a, b = b, a
		}
		q.HasTMin, q.HasTMax = true, true
		q.TMin = hist.TS(a) + int64(rapid.IntRange(-1, 1).Draw(t, "da"))
		q.TMax = hist.TS(b) + int64(rapid.IntRange(-1, 1).Draw(t, "db"))
		if !bucket && rapid.IntRange(0, 3).Draw(t, "openend") == 0 {
			q.HasTMax = false
		}
	}
	n := rapid.IntRange(1, 3).Draw(t, "ncalls")
	for i := 0; i < n; i++ {
		f := rapid.SampledFrom(hist.FieldNames).Draw(t, "aggfield")
		fns := []string{"count", "first", "last"}
		if f == "i" || f == "f" {
			fns = []string{"count", "sum", "mean", "min", "max", "first", "last"}
		}
		q.Sel = append(q.Sel, qref.Call{Func: rapid.SampledFrom(fns).Draw(t, "fn"), Field: f})
	}
	if rapid.IntRange(0, 3).Draw(t, "tagp") == 0 {
		q.Tag = &qref.TagPred{Atoms: []qref.TagAtom{{Key: "host", Op: rapid.SampledFrom([]string{"=", "!="}).Draw(t, "top"), Val: rapid.SampledFrom([]string{"a", "b", "c"}).Draw(t, "tv")}}}
	}
	if rapid.IntRange(0, 3).Draw(t, "fieldp") == 0 {
		switch rapid.IntRange(0, 1).Draw(t, "fa") {
		case 0:
			q.Field = &qref.FieldPred{Atoms: []qref.FieldAtom{{Field: "i", Op: rapid.SampledFrom([]string{"=", "<", "<=", ">", ">="}).Draw(t, "op"), Lit: fmt.Sprint(rapid.IntRange(-5, 13).Draw(t, "iv"))}}}
		default:
			q.Field = &qref.FieldPred{Atoms: []qref.FieldAtom{{Field: "f", Op: rapid.SampledFrom([]string{"<", "<=", ">", ">="}).Draw(t, "op"), Lit: fmt.Sprintf("%.2f", float64(rapid.IntRange(-20, 52).Draw(t, "fv"))/4)}}}
		}
	}
	switch rapid.IntRange(0, 3).Draw(t, "grouping") {
	case 0:
		q.GroupAll = true
	case 1:
		q.GroupBy = rapid.SampledFrom([][]string{{"host"}, {"dc"}, {"host", "dc"}}).Draw(t, "gb")
	}
	q.Desc = rapid.IntRange(0, 2).Draw(t, "desc") == 0
	if bucket {
		q.Interval = rapid.SampledFrom([]int64{1e9, 3e9, 8e9, 20e9}).Draw(t, "interval")
		q.Fill = rapid.SampledFrom([]string{"", "none", "previous"}).Draw(t, "fill")
	}
	if q.Interval == 0 && q.Field == nil {
		// the statement promises exactness without hint only when no (series,time) was written in two flush generations
		q.Exact = !g.noOverwrite || rapid.IntRange(0, 3).Draw(t, "hint") == 0
	}
	return q
}

// seedAllSeries writes one row per series before the first query: a tag predicate evaluated before a series was first written may be
// answered from the index's tag-filter cache for some seconds afterwards (visibility lag of new series, not part of the property).
func seedAllSeries(t *rapid.T, w *world, g *gen) {
	g.request++
	var ps []hist.PointJ
	for si := range tagSets {
		p := hist.PointJ{Mst: mst, Tags: tagSets[si], T: 63, Fields: map[string]string{}}
		v := rapid.IntRange(-4, 12).Draw(t, "seedVal")
		p.Fields["i"], p.Fields["f"], p.Fields["s"], p.Fields["b"] = fmt.Sprint(v), fmt.Sprintf("%g", float64(v)/4), fmt.Sprintf("v%d", v), fmt.Sprint(v%2 == 0)
		g.written[fmt.Sprintf("%v|%d", p.Tags, p.T)] = g.request
		g.times[p.T] = true
		ps = append(ps, p)
	}
	w.exec(Op{Kind: "write", Points: ps})
}

func runCase(t *rapid.T, c *ev.Case)      { runCaseMode(t, c, false, false) }
func runDenseCase(t *rapid.T, c *ev.Case) { runCaseMode(t, c, true, false) }
func runLayerCase(t *rapid.T, c *ev.Case) { runCaseMode(t, c, false, true) }

func runCaseMode(t *rapid.T, c *ev.Case, dense, layers bool) {
	pt := rapid.SampledFrom([]string{"1", "4"}).Draw(t, "ptnum")
	w := &world{c: c}
	w.fail = func(format string, a ...any) {
		c.Failf(t, prop, map[string]any{"kind": "history", "ptnum": pt}, format, a...)
	}
	w.h = hist.New(c, 9, map[string]string{"ptnum-pernode": pt, "max-rows-per-segment": "8"}, w.fail)
	defer w.h.Close()
	g := &gen{written: map[string]int{}, times: map[int]bool{}, noOverwrite: rapid.Bool().Draw(t, "noOverwrite")}
	w.noOverwrite = g.noOverwrite
	if g.noOverwrite {
		c.Class("history-without-cross-request-overwrites")
	}
	nt := map[string]bool{}
	pairs := func(t *rapid.T, n int) {
		for i := 0; i < n; i++ {
			q := g.query(t)
			if q.Fill == "previous" {
				// KNOWN FINDING C08-H (fill(previous) leaks between groups / leaves cells unfilled): not generated here
				c.Excluded("known:C08-H")
				q.Fill = ""
			}
			if q.Desc {
				for _, cc := range q.Sel {
					if cc.Func == "first" || cc.Func == "last" {
						// KNOWN FINDING C08-B2 (first/last under ORDER BY time DESC)
						c.Excluded("known:C08-B2")
						q.Desc = false
					}
				}
			}
			if !q.GroupAll {
				fl, distinct := false, map[qref.Call]bool{}
				for _, cc := range q.Sel {
					distinct[cc] = true
					if cc.Func == "first" || cc.Func == "last" {
						fl = true
					}
				}
				if fl && len(distinct) >= 2 {
					// KNOWN FINDING C08-J (several calls incl. first/last over a group of several series, several partitions)
					c.Excluded("known:C08-J")
					q.GroupAll, q.GroupBy = true, nil
				}
			}
			if q.Interval == 0 && q.Field == nil && !q.Exact {
				fl, fields := false, map[string]bool{}
				for _, cc := range q.Sel {
					fields[cc.Field] = true
					if cc.Func == "first" || cc.Func == "last" {
						fl = true
					}
				}
				if fl && len(fields) >= 2 {
					// KNOWN FINDING C09-multicall-last-across-memtable-and-file (several calls on different fields incl. first/last,
					// served from statistics, rows in the memtable and in files): searched with the exact hint only
					c.Excluded("known:C09-K")
					q.Exact = true
				}
			}
			if q.Field != nil && !g.noOverwrite {
				// KNOWN FINDING C08-I (field predicates evaluated on per-generation row fragments)
				c.Excluded("known:C08-I")
				q.Field = nil
				if q.Interval == 0 {
					q.Exact = true
				}
			}
			if !w.exec(Op{Kind: "pair", Query: &q}) {
				continue
			}
			// non-trivial: the range cuts the data (covers some rows of a series and leaves others out) or mixes memtable rows with files
			rows := qref.RowsFromStore(w.h.St, mst)
			in, out := 0, 0
			for _, r := range rows {
				if (!q.HasTMin || r.Time >= q.TMin) && (!q.HasTMax || r.Time <= q.TMax) {
					in++
				} else {
					out++
				}
			}
			o, u, _ := w.h.Layout()
			if in > 0 && (out > 0 || (o+u > 0 && w.h.St != nil)) {
				var fns []string
				for _, cc := range q.Sel {
					fns = append(fns, cc.Func)
				}
				nt[fmt.Sprintf("fns=%v cut=%v files=%v unordered=%v exact=%v field=%v bucket=%v group=%v%v desc=%v", fns, out > 0, o > 0, u > 0, q.Exact, q.Field != nil, q.Interval > 0, q.GroupAll, q.GroupBy, q.Desc)] = true
				c.Class("nontrivial-pair")
			}
			if q.Exact {
				c.Class("exact-hint")
			}
			if q.Interval > 0 {
				c.Class("time-bucket")
			}
			if q.Field != nil {
				c.Class("field-filter")
			}
			if q.Interval == 0 && q.Field == nil && !q.Exact {
				c.Class("served-from-statistics-candidate(no hint, no filter, no bucket)")
			}
		}
	}
	finish := func() {
		if len(nt) > 0 {
			keys := make([]string, 0, len(nt))
			for k := range nt {
				keys = append(keys, k)
			}
			sort.Strings(keys)
			c.Nontrivial(map[string]any{"shapes": keys, "ops": c.Ops()})
			var qs []string
			for _, o := range c.Ops() {
				if op, ok := o.(Op); ok && op.Kind == "pair" && len(qs) < 6 {
					qs = append(qs, op.Query.SQL())
				}
			}
			c.Sample(map[string]any{"pair_shapes": keys[:min(len(keys), 6)], "some_aggregates": qs})
		}
	}
	if layers {
		// the same cells rewritten layer by layer (ordered file(s) <- out-of-order file(s) <- memtable), series advancing at different
		// speeds: aggregates evaluated over rows (hint / bucket / filter) have to fold the layers exactly as the plain select does
		g.noOverwrite, w.noOverwrite = false, false
		nser := rapid.IntRange(2, 4).Draw(t, "nser")
		span := rapid.IntRange(6, 16).Draw(t, "span")
		layer := func(label string, only, from, to, density int) []hist.PointJ {
			g.request++
			var ps []hist.PointJ
			for s := 0; s < nser; s++ {
				if only >= 0 && s != only {
					continue
				}
				for k := from; k < to; k++ {
					if rapid.IntRange(0, 9).Draw(t, label+"skip") >= density && !(label == "base" && k == from) {
						continue
					}
					p := hist.PointJ{Mst: mst, Tags: tagSets[s], T: k, Fields: map[string]string{}}
					mask := rapid.SampledFrom([]int{15, 15, 4, 2, 6, 12, 1, 8}).Draw(t, "fieldmask")
					for j, fn := range hist.FieldNames {
						if mask&(1<<j) == 0 {
							continue
						}
						v := rapid.IntRange(-40, 40).Draw(t, "val")
						switch fn {
						case "i":
							p.Fields[fn] = fmt.Sprint(v)
						case "f":
							p.Fields[fn] = fmt.Sprintf("%g", float64(v)/4)
						case "s":
							p.Fields[fn] = fmt.Sprintf("v%d", v)
						default:
							p.Fields[fn] = fmt.Sprint(v%2 == 0)
						}
					}
					g.times[p.T] = true
					ps = append(ps, p)
				}
			}
			return ps
		}
		put := func(ps []hist.PointJ, flush bool, cls string) {
			if len(ps) == 0 {
				return
			}
			w.exec(Op{Kind: "write", Points: ps})
			if flush {
				w.exec(Op{Kind: "flush"})
			}
			c.Class(cls)
		}
		lo := rapid.IntRange(0, span/2).Draw(t, "orderedFrom")
		short := rapid.IntRange(0, nser-1).Draw(t, "shortSeries")
		cut := rapid.IntRange(lo+1, span).Draw(t, "shortUntil")
		var base []hist.PointJ
		for sidx := 0; sidx < nser; sidx++ {
			hi := span + 4
			if sidx == short {
				hi = cut
			}
			base = append(base, layer("base", sidx, lo, hi, 8)...)
		}
		put(base, true, "layer:ordered-file")
		put(layer("cont", short, cut, span+4, 9), true, "layer:second-ordered-file-continuing-one-series")
		for k := 0; k < rapid.IntRange(1, 2).Draw(t, "nooo"); k++ {
			put(layer("ooo", -1, 0, span, 5), true, "layer:out-of-order-file")
		}
		if rapid.IntRange(0, 3).Draw(t, "mem") > 0 {
			put(layer("mem", -1, 0, span, 4), false, "layer:memtable-over-out-of-order")
		}
		pairs(t, rapid.IntRange(5, 9).Draw(t, "ql1"))
		if rapid.Bool().Draw(t, "more") {
			put(layer("ooo2", -1, 0, span, 3), rapid.Bool().Draw(t, "flush2"), "layer:second-rewrite")
			pairs(t, rapid.IntRange(3, 6).Draw(t, "ql2"))
		}
		if rapid.IntRange(0, 2).Draw(t, "reorg") == 0 {
			w.exec(Op{Kind: "flush"})
			w.exec(Op{Kind: "reorg", Cmd: rapid.SampledFrom([]string{"merge", "all"}).Draw(t, "cmd")})
			pairs(t, rapid.IntRange(3, 5).Draw(t, "ql3"))
		}
		finish()
		return
	}
	if dense {
		// chunks of several segments: 2-3 flushed generations of consecutive rows per series, the last one optionally left in the
		// memtable, optionally late rows and a merge / compaction pass; no (series,time) is written twice
		g.noOverwrite, w.noOverwrite = true, true
		seedAllSeries(t, w, g)
		nser := rapid.IntRange(1, 3).Draw(t, "nser")
		ngen := rapid.IntRange(1, 3).Draw(t, "ngen")
		for gi := 0; gi < ngen && g.cursor < 52; gi++ {
			w.exec(Op{Kind: "write", Points: g.denseBatch(t, nser)})
			if gi < ngen-1 || rapid.IntRange(0, 3).Draw(t, "flushlast") > 0 {
				w.exec(Op{Kind: "flush"})
				c.Class("multi-segment-chunk-flushed")
			}
			pairs(t, rapid.IntRange(4, 9).Draw(t, "qd"))
		}
		if rapid.IntRange(0, 2).Draw(t, "late") == 0 {
			w.exec(Op{Kind: "write", Points: g.batch(t, rapid.IntRange(2, 8).Draw(t, "nlate"), true)})
			w.exec(Op{Kind: "flush"})
			pairs(t, rapid.IntRange(3, 6).Draw(t, "ql"))
		}
		if rapid.IntRange(0, 2).Draw(t, "reorg") == 0 {
			w.exec(Op{Kind: "reorg", Cmd: rapid.SampledFrom([]string{"all", "merge", "compact"}).Draw(t, "cmd")})
			pairs(t, rapid.IntRange(3, 6).Draw(t, "q4"))
		}
		finish()
		return
	}
	seedAllSeries(t, w, g)
	for i := 0; i < rapid.IntRange(1, 3).Draw(t, "w1"); i++ {
		w.exec(Op{Kind: "write", Points: g.batch(t, rapid.IntRange(10, 40).Draw(t, "n"), false)})
	}
	pairs(t, rapid.IntRange(2, 5).Draw(t, "q1"))
	w.exec(Op{Kind: "flush"})
	pairs(t, rapid.IntRange(2, 6).Draw(t, "q2"))
	for i := 0; i < rapid.IntRange(0, 3).Draw(t, "w2"); i++ {
		w.exec(Op{Kind: "write", Points: g.batch(t, rapid.IntRange(4, 30).Draw(t, "n"), rapid.Bool().Draw(t, "late"))})
		if rapid.Bool().Draw(t, "flushagain") {
			w.exec(Op{Kind: "flush"})
		}
	}
	pairs(t, rapid.IntRange(2, 6).Draw(t, "q3"))
	if rapid.Bool().Draw(t, "reorg") {
		w.exec(Op{Kind: "flush"})
		w.exec(Op{Kind: "reorg", Cmd: rapid.SampledFrom([]string{"all", "merge", "compact"}).Draw(t, "cmd")})
		pairs(t, rapid.IntRange(2, 6).Draw(t, "q4"))
	}
	finish()
}

func TestOverwriteLayers(t *testing.T) {
	rapid.Check(t, ev.Prop(prop, "overwrite_layers", runLayerCase))
}
func TestDenseSegments(t *testing.T)  { rapid.Check(t, ev.Prop(prop, "dense_segments", runDenseCase)) }
func TestAggregatePairs(t *testing.T) { rapid.Check(t, ev.Prop(prop, "aggregate_pairs", runCase)) }

type violation struct{ msg string }

func TestReplay(t *testing.T) {
	ev.RunReplays(func(raw json.RawMessage, f ev.Failure) (err error) {
		var hc struct {
			PT string `json:"ptnum"`
		}
		_ = json.Unmarshal(raw, &hc)
		if hc.PT == "" {
			hc.PT = "1"
		}
		b, _ := json.Marshal(f.Ops)
		var ops []Op
		if e := json.Unmarshal(b, &ops); e != nil {
			return ev.InconclusiveError(e.Error())
		}
		c := ev.Begin("replay")
		w := &world{c: c}
		defer func() {
			if w.h != nil {
				w.h.Close()
			}
			if r := recover(); r != nil {
				if v, ok := r.(violation); ok {
					err = fmt.Errorf("%s", v.msg)
					return
				}
				panic(r)
			}
		}()
		w.fail = func(format string, a ...any) { panic(violation{fmt.Sprintf(format, a...)}) }
		w.h = hist.New(c, 9, map[string]string{"ptnum-pernode": hc.PT, "max-rows-per-segment": "8"}, w.fail)
		for _, op := range ops {
			if op.Kind == "start" || op.Kind == "" {
				continue
			}
			w.exec(op)
		}
		return nil
	})
}
