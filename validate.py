#!/usr/bin/env python3
# validates MANIFEST.json and evidence/*.json against the schemas (needs the tooling venv: python3-vt validate.py)
import json, glob, sys
import jsonschema
ok = True
def v(f, s):
    global ok
    try:
        jsonschema.validate(json.load(open(f)), json.load(open(s)))
    except Exception as e:
        ok = False
        print("INVALID", f, str(e)[:300])
v('/verif/MANIFEST.json', '/root/.vp/MANIFEST.schema.json')
for f in sorted(glob.glob('/verif/evidence/*.json')):
    v(f, '/root/.vp/EVIDENCE.schema.json')
print("all valid" if ok else "FAILED")
sys.exit(0 if ok else 1)
