#!/bin/bash
# tools/seedregress.sh <seed-dir-name>... : re-runs seedcheck.py (quick tier, seed 1) for the given stored seeded changes with the current checks
cd /verif
for s in "$@"; do
  props=$(python3 -c "
import json,sys
r=json.load(open('seeded/$s/result.json')) if __import__('os').path.exists('seeded/$s/result.json') else {'runs':[]}
ps=[x['property'] for x in r['runs'] if x['exit']==1]
print(ps[0] if ps else '')")
  if [ -n "$props" ]; then extra="--props $props"; else extra=""; fi
  out=$(python3 seedcheck.py $s $extra --seeds 1 2>&1 | grep -E " exit [0-9]|does not apply" | tail -1 | cut -c1-200)
  echo "REGRESS $s -> $out"
done
