#!/bin/bash
# tools/refresh_evidence.sh [props...]: runs the quick tier of every (given) claimed check in /verif against /repo and so rewrites evidence/<id>.json.
cd /verif
for p in ${@:-C01 C02 C03 C04 C05 C06 C07 C08 C09 C10 C11 C12 C13 C14 C15 C16 C17 C18 C19 C20}; do
  t0=$(date +%s)
  VERIF_SEED=1 python3 vcheck.py run $p --tier quick > .run/refresh-$p.log 2>&1; rc=$?
  echo "REFRESH prop=$p exit=$rc wall=$(( $(date +%s) - t0 ))s $(grep -c '^KNOWN-FINDING' .run/refresh-$p.log) known $(grep -m1 -E '^(VIOLATION|INCONCLUSIVE)' .run/refresh-$p.log | cut -c1-200)"
done
