#!/usr/bin/env python3
"""Regenerates the generated tables of DESIGN.md (between the markers) from known_findings.json and seeded/*/."""
import json, os, glob, re, collections
ROOT = os.path.dirname(os.path.dirname(os.path.abspath(__file__)))
k = json.load(open(os.path.join(ROOT, "known_findings.json")))["findings"]
out = []
out.append("| property | fixed in /repo (regression replays) | known findings (replays, reported as KNOWN-FINDING) |")
out.append("|---|---|---|")
by = collections.defaultdict(lambda: {"fixed": [], "known": []})
for f in k:
    by[f["property"]][f["status"]].append(f)
for p in sorted(by):
    fx = "; ".join(sorted(set("%s (%s)" % (f["id"].replace(p + "-", ""), f.get("commit", "?")) for f in by[p]["fixed"]))) or "-"
    kn = "; ".join(sorted(f["id"].replace(p + "-", "") for f in by[p]["known"])) or "-"
    out.append("| %s | %s | %s |" % (p, fx, kn))
findings = "\n".join(out)

rows = ["| seeded change | property | what it needs to manifest | caught by (quick tier) |", "|---|---|---|---|"]
for d in sorted(glob.glob(os.path.join(ROOT, "seeded", "*"))):
    try:
        m = json.load(open(os.path.join(d, "meta.json")))
    except Exception:
        continue
    res = {}
    if os.path.exists(os.path.join(d, "result.json")):
        res = json.load(open(os.path.join(d, "result.json")))
    caught = "not run"
    if res:
        hits = [r for r in res["runs"] if r["exit"] == 1]
        if hits:
            l = hits[0]["lines"][0] if hits[0]["lines"] else ""
            camp = re.search(r"failing case \(([^)]*)\)", l)
            caught = "CAUGHT: %s (%s, %.0f s)" % (hits[0]["property"], camp.group(1) if camp else ("replay" if "replay failed" in l else "?"), hits[0]["wall_s"])
        else:
            caught = "MISSED"
    prop = m["property"] if isinstance(m["property"], str) else ",".join(m["property"])
    rows.append("| %s | %s | %s | %s |" % (os.path.basename(d), prop, m["needs_to_manifest"][:260].replace("|", "/"), caught))
seeds = "\n".join(rows)

p = os.path.join(ROOT, "DESIGN.md")
s = open(p).read()
def put(s, name, body):
    a, b = "<!-- BEGIN %s -->" % name, "<!-- END %s -->" % name
    if a not in s:
        return s + "\n%s\n%s\n%s\n" % (a, body, b)
    return s[:s.index(a) + len(a)] + "\n" + body + "\n" + s[s.index(b):]
s = put(s, "FINDINGS", findings)
s = put(s, "SEEDS", seeds)
open(p, "w").write(s)
print("tables written")
