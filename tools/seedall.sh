#!/bin/bash
# tools/seedall.sh <PID> <name> <outdir> [seeds]: ingest + confirm (demo passes at HEAD, fails with the patch) + run the property's quick check against the seeded change
PID=$1; NAME=$2; OUT=$3; SEEDS=${4:-1}
cd /verif
tools/seedingest.sh $PID $NAME $OUT > /dev/null
D=/verif/seeded/seed-$PID-$NAME
read PKG FILE RUN < <(python3 - "$D" <<'PY'
import json,sys,re
m=json.load(open(sys.argv[1]+'/meta.json'))
cmd=m.get('demo_cmd','')
r=re.search(r"-run[ =]+'?\"?([^'\" ]+)",cmd)
print(m.get('demo_pkg_dir') or '-', m.get('demo_file') or '-', r.group(1) if r else 'TestSeed')
PY
)
echo "== $PID $NAME pkg=$PKG file=$FILE run=$RUN"
SEEDTAGS= bash seedconfirm.sh $D $FILE $PKG "$RUN" 2>&1 | tail -2
python3 seedcheck.py seed-$PID-$NAME --seeds $SEEDS 2>&1 | tail -3 | cut -c1-500
