#!/usr/bin/env python3
"""tools/ops2lp.py <failure.json> <ip> [db]: development aid - feeds the write/flush ops of a saved case to a dev server (line protocol), prints queries."""
import json,sys,urllib.request,urllib.parse
f=json.load(open(sys.argv[1])); ip=sys.argv[2]; db=sys.argv[3] if len(sys.argv)>3 else 'd'
T0=1700000000*10**9; WEEK=7*24*3600*10**9
def ts(i): return T0+i*10**9 if i<64 else T0+WEEK+(i-64)*10**9
def lp(p):
    tags=''.join(',%s=%s'%(k,v) for k,v in sorted(p['tags'].items()))
    fl=[]
    for k,v in sorted(p['fields'].items()):
        if k=='i': v=v+'i'
        elif k=='s': v='"%s"'%v
        fl.append('%s=%s'%(k,v))
    return '%s%s %s %d'%(p['m'],tags,','.join(fl),ts(p['t']))
for o in f['ops']:
    k=o.get('op')
    if k=='write':
        body='\n'.join(lp(p) for p in o['points']).encode()
        r=urllib.request.urlopen(urllib.request.Request('http://%s:8086/write?db=%s'%(ip,db),data=body,method='POST')); print('write',len(o['points']),r.status)
    elif k=='flush':
        r=urllib.request.urlopen(urllib.request.Request('http://%s:8086/debug/ctrl?mod=flush'%ip,method='POST')); print('flush',r.status)
    elif k=='query':
        print('QUERY', json.dumps(o['query'])[:300])
    else: print('skip',k, o.get('cmd'))
