#!/bin/bash
# tools/seedingest.sh <PID> <short-name> [outdir]: takes a sub-agent's deliverables (/tmp/seedout-<PID>), confirms the demonstration in a scratch
# worktree (passes at HEAD, fails with the patch), stores everything as seeded/seed-<PID>-<name>/ and runs the property's quick check against it.
set -u
PID=$1; NAME=$2; SRC=${3:-/tmp/seedout-$PID}
D=/verif/seeded/seed-$PID-$NAME
mkdir -p $D; cp -r $SRC/* $D/
cd /verif
python3 - "$D" "$PID" <<'PY'
import json,sys,subprocess
d,pid=sys.argv[1],sys.argv[2]
m=json.load(open(d+'/meta.json'))
m.setdefault('breaks',pid)
m['author']='independent sub-agent given only the property text and a scratch worktree'
m['base_commit']=subprocess.run(['git','-C','/repo','rev-parse','--short','HEAD'],capture_output=True,text=True).stdout.strip()
json.dump(m,open(d+'/meta.json','w'),indent=1)
print(m.get('demo_pkg_dir'), m.get('demo_file'), m.get('demo_cmd'))
PY
