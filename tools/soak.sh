#!/bin/bash
# tools/soak.sh <tier> <seed>... : runs every claimed check once per seed on the unchanged tree and prints one line per run.
# Used (through `vp run`) to look for false alarms / flakiness under load; evidence goes to $VERIF_EVIDENCE_DIR so the committed files stay untouched.
tier=$1; shift
export VERIF_EVIDENCE_DIR=${VERIF_EVIDENCE_DIR:-$(pwd)/.run/soak-evidence}
export VERIF_INSTANCE_OFFSET=${VERIF_INSTANCE_OFFSET:-32}
for s in "$@"; do
  for p in ${SOAK_PROPS:-C01 C02 C03 C04 C05 C06 C07 C08 C09 C10 C11 C12 C13 C14 C15 C16 C17 C18 C19 C20}; do
    t0=$(date +%s)
    VERIF_SEED=$s python3 vcheck.py run $p --tier $tier > .run-soak-$p-$s.log 2>&1; rc=$?
    echo "SOAK prop=$p seed=$s tier=$tier exit=$rc wall=$(( $(date +%s) - t0 ))s $(grep -c '^KNOWN-FINDING' .run-soak-$p-$s.log) known $(grep -m1 -E '^(VIOLATION|INCONCLUSIVE)' .run-soak-$p-$s.log | cut -c1-200)"
    if [ $rc -eq 0 ]; then rm -f .run-soak-$p-$s.log; fi
  done
done
