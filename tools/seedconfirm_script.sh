#!/bin/bash
# tools/seedconfirm_script.sh <seed-dir> <script> : confirms a script demonstration in a scratch worktree (exit 0 at HEAD, non-zero with patch.diff)
set -u
OUT=$1; SCRIPT=$2
export PATH=/root/go/pkg/mod/golang.org/toolchain@v0.0.1-go1.25.0.linux-amd64/bin:$PATH GOTOOLCHAIN=local GOFLAGS=-mod=mod GOPROXY=off
WT=/tmp/seedconfirm-$$
git -C /repo worktree add -q --detach $WT HEAD || exit 2
cp $OUT/$SCRIPT $WT/
cd $WT
case $SCRIPT in *.py) RUN="python3 $SCRIPT";; *) RUN="bash $SCRIPT";; esac
$RUN > $OUT/confirm_head.txt 2>&1; H=$?
git apply $OUT/patch.diff || { echo "patch does not apply"; cd /; git -C /repo worktree remove --force $WT; exit 2; }
$RUN > $OUT/confirm_patched.txt 2>&1; P=$?
cd /; git -C /repo worktree remove --force $WT
echo "head_exit=$H patched_exit=$P"
if [ $H -eq 0 ] && [ $P -ne 0 ]; then echo CONFIRMED; else echo NOT-CONFIRMED; fi
