#!/bin/bash
# tools/hunt.sh <PROP> <campaign-regex> <first-seed> <count> [tier]: repeats one sub-campaign over many seeds until a run fails, keeping the failing
# run's directories (server data under /dev/shm, logs under .run) for diagnosis. Development aid for schedule-dependent failures.
P=$1; ONLY=$2; S0=$3; N=$4; TIER=${5:-quick}
export VERIF_EVIDENCE_DIR=$(pwd)/.run/hunt-evidence VERIF_INSTANCE_OFFSET=${VERIF_INSTANCE_OFFSET:-40} VERIF_KEEPDIR=1 VERIF_RUNROOT=/dev/shm/hunt-$P-$$
for s in $(seq $S0 $((S0+N-1))); do
  VERIF_ONLY="$ONLY" VERIF_SEED=$s python3 vcheck.py run $P --tier $TIER --keep > .hunt-$P-$s.log 2>&1; rc=$?
  echo "HUNT prop=$P seed=$s exit=$rc $(grep -m1 -E '^(VIOLATION|INCONCLUSIVE)' .hunt-$P-$s.log | cut -c1-160)"
  if [ $rc -eq 1 ]; then echo "kept: $VERIF_RUNROOT"; exit 1; fi
  rm -rf $VERIF_RUNROOT .run/$P-* .hunt-$P-$s.log
done
