#!/bin/bash
# tools/devserver.sh start|stop [ip] : development aid - one ts-server (the binary vcheck built for C02) on its own loopback address
IP=${2:-127.99.0.1}; D=/dev/shm/devsrv-$IP
case $1 in
start)
  pkill -9 -f "ts-server.*$D" 2>/dev/null; sleep 1; rm -rf $D; mkdir -p $D
  sed -e 's/\r$//' -e "s/127.0.0.1/$IP/g" -e "s#/tmp/openGemini#$D#g" /repo/config/openGemini.singlenode.conf > $D/conf
  sed -i 's/store-enabled = true/store-enabled = false/; s/flight-enabled = true/flight-enabled = false/' $D/conf
  sed -i "s/^\[data\]$/[data]\n  max-rows-per-segment = ${SEG:-8}/; s/^\[meta\]$/[meta]\n  ptnum-pernode = ${PT:-1}/" $D/conf
  (cd $D && nohup /verif/.build/C02/ts-server -config $D/conf > $D/out.log 2>&1 &)
  for i in $(seq 1 50); do curl -s -o /dev/null "http://$IP:8086/ping" && break; sleep 0.2; done; echo "up at $IP" ;;
stop) pkill -f "ts-server.*$D"; rm -rf $D ;;
esac
