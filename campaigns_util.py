def B(checks, procs=1, timeout=900, **kw):
    """budget of one sub-campaign in one tier: rapid case count per process, number of processes, process timeout (s)"""
    d = {"checks": checks, "procs": procs, "timeout": timeout}
    d.update(kw)
    return d
