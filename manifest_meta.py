HOOK_COMMITS = ["25b9903", "e342f48", "84839a7", "aa49a5c", "4d2c446", "0e5e31d"]
NOTES = ("Driver: vcheck.py (python3 stdlib) builds the property test binary (and server binaries) from /repo's working tree with -tags verif, "
         "runs the saved replays, then the generated campaigns as parallel processes seeded from VERIF_SEED, merges statistics into evidence/<id>.json. "
         "Exit 2 = inconclusive (build failure/timeout), never a violation. known_findings.json lists fixed/known defects.")
_PENDING = "check not built yet in this session (work in progress; see DESIGN.md section 3 for the planned decision procedure)"
NOT_APPLICABLE = {("C%02d" % i): _PENDING for i in range(1, 21)}

# Properties whose check is finished and silent on the unchanged tree (only these are claimed in MANIFEST.json).
READY = ["C01", "C02", "C03", "C04", "C05", "C06", "C07", "C08", "C09", "C10", "C11", "C12", "C13", "C14", "C15", "C16", "C17", "C18", "C19", "C20"]
