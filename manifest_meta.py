HOOK_COMMITS = []
NOTES = ("Driver: vcheck.py (python3 stdlib) builds the property test binary (and server binaries) from /repo's working tree with -tags verif, "
         "runs the saved replays, then the generated campaigns as parallel processes seeded from VERIF_SEED, merges statistics into evidence/<id>.json. "
         "Exit 2 = inconclusive (build failure/timeout), never a violation. known_findings.json lists fixed/known defects.")
_PENDING = "check not built yet in this session (work in progress; see DESIGN.md section 3 for the planned decision procedure)"
NOT_APPLICABLE = {("C%02d" % i): _PENDING for i in range(1, 21)}
META = {}
META["C07"] = {
    "engine": "lib-rapid",
    "technique": "property-based round-trip testing (rapid shape generators per encoder branch; native go fuzz in thorough)",
    "text": ("Generated columns/records/row batches are encoded and decoded through the exported codec entry points and must come back bit-identical; "
             "encoder-mode coverage is measured. Exploration: finds counterexamples, never proves absence."),
    "note": "Trusts Go's math.Float64bits comparison and the harness' own structural comparison; whole-file and WAL-frame parts are covered to the extent the evidence lists.",
}
