#!/bin/bash
# seedconfirm.sh <seed-out-dir> <demo_test.go> <package-dir> <run-regex>: confirms a Go-test demonstration in a scratch worktree:
# passes at HEAD, fails with patch.diff applied. Prints CONFIRMED or NOT-CONFIRMED.
set -u
OUT=$1; DEMO=$2; PKG=$3; RUN=$4
export PATH=/root/go/pkg/mod/golang.org/toolchain@v0.0.1-go1.25.0.linux-amd64/bin:$PATH GOTOOLCHAIN=local GOFLAGS=-mod=mod GOPROXY=off
WT=/tmp/seedconfirm-$$
git -C /repo worktree add -q --detach $WT HEAD || exit 2
cp $OUT/$DEMO $WT/$PKG/
cd $WT
go test ${SEEDTAGS:-} -vet=off -count=1 -run "$RUN" ./$PKG/ > $OUT/confirm_head.txt 2>&1; H=$?
git apply $OUT/patch.diff || { echo "patch does not apply"; cd /; git -C /repo worktree remove --force $WT; exit 2; }
go build ./... > $OUT/confirm_build.txt 2>&1; B=$?
go test ${SEEDTAGS:-} -vet=off -count=1 -run "$RUN" ./$PKG/ > $OUT/confirm_patched.txt 2>&1; P=$?
cd /; git -C /repo worktree remove --force $WT
echo "head_exit=$H build_exit=$B patched_exit=$P"
if [ $H -eq 0 ] && [ $B -eq 0 ] && [ $P -ne 0 ]; then echo CONFIRMED; else echo NOT-CONFIRMED; fi
