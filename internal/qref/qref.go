// Package qref is the reference evaluator of the core InfluxQL subset named by property C08:
// plain selections with time, tag and field filters; count/sum/mean/min/max/first/last overall, per tag
// group and per epoch-aligned time bucket; fill none/null/number/previous; limit/offset on ungrouped
// selections; ORDER BY time DESC. It works on plain rows (from the model, or from a server's own plain
// select for C09) and yields an expected answer in which every choice the language leaves open is a set of
// admissible values. The semantics were pinned by probes of the pinned build (see DESIGN.md C08).
package qref

import (
	"encoding/json"
	"fmt"
	"math"
	"regexp"
	"sort"
	"strconv"
	"strings"

	"verif/internal/bb"
	"verif/internal/model"
)

// Row is one logical row: a (series, time) with its non-null fields.
type Row struct {
	Tags   map[string]string
	Time   int64
	Fields map[string]model.Value
}

// ---------------------------------------------------------------- query description

type TagAtom struct {
	Key string `json:"key"`
	Op  string `json:"op"` // = != =~ !~
	Val string `json:"val"`
}

// TagPred: atoms joined by one connective (AND / OR); empty = none.
type TagPred struct {
	Atoms []TagAtom `json:"atoms"`
	Or    bool      `json:"or,omitempty"`
}

type FieldAtom struct {
	Field string `json:"field"`
	Op    string `json:"op"` // = != < <= > >=
	Lit   string `json:"lit"` // rendered literal: 12, 1.5, 'x', true
}

type FieldPred struct {
	Atoms []FieldAtom `json:"atoms"`
	Or    bool        `json:"or,omitempty"`
}

type Call struct {
	Func  string `json:"func"` // "" = raw field
	Field string `json:"field"`
}

type Query struct {
	Mst      string     `json:"m"`
	Sel      []Call     `json:"sel"`
	Star     bool       `json:"star,omitempty"` // select *
	HasTMin  bool       `json:"has_tmin,omitempty"`
	TMin     int64      `json:"tmin,omitempty"` // inclusive
	HasTMax  bool       `json:"has_tmax,omitempty"`
	TMax     int64      `json:"tmax,omitempty"` // inclusive
	Tag      *TagPred   `json:"tag,omitempty"`
	Field    *FieldPred `json:"fieldpred,omitempty"`
	GroupAll bool       `json:"group_all,omitempty"`
	GroupBy  []string   `json:"group_by,omitempty"`
	Interval int64      `json:"interval,omitempty"` // ns
	Fill     string     `json:"fill,omitempty"`     // "", none, null, previous, or a number
	Desc     bool       `json:"desc,omitempty"`
	Limit    int        `json:"limit,omitempty"`
	Offset   int        `json:"offset,omitempty"`
	Exact    bool       `json:"exact,omitempty"` // /*+ Exact_Statistic_Query */ hint
}

func (q Query) IsAgg() bool { return len(q.Sel) > 0 && q.Sel[0].Func != "" }

func (q Query) SQL() string {
	var sel []string
	if q.Star {
		sel = []string{"*"}
	}
	for _, c := range q.Sel {
		if c.Func == "" {
			sel = append(sel, bb.Quote(c.Field))
		} else {
			sel = append(sel, c.Func+"("+bb.Quote(c.Field)+")")
		}
	}
	hint := ""
	if q.Exact {
		hint = "/*+ Exact_Statistic_Query */ "
	}
	s := "select " + hint + strings.Join(sel, ", ") + " from " + bb.Quote(q.Mst)
	var conds []string
	if q.HasTMin {
		conds = append(conds, fmt.Sprintf("time >= %d", q.TMin))
	}
	if q.HasTMax {
		conds = append(conds, fmt.Sprintf("time <= %d", q.TMax))
	}
	if q.Tag != nil && len(q.Tag.Atoms) > 0 {
		var as []string
		for _, a := range q.Tag.Atoms {
			if a.Op == "=~" || a.Op == "!~" {
				as = append(as, fmt.Sprintf("%s %s /%s/", bb.Quote(a.Key), a.Op, a.Val))
			} else {
				as = append(as, fmt.Sprintf("%s %s '%s'", bb.Quote(a.Key), a.Op, a.Val))
			}
		}
		j := " and "
		if q.Tag.Or {
			j = " or "
		}
		conds = append(conds, "("+strings.Join(as, j)+")")
	}
	if q.Field != nil && len(q.Field.Atoms) > 0 {
		var as []string
		for _, a := range q.Field.Atoms {
			as = append(as, fmt.Sprintf("%s %s %s", bb.Quote(a.Field), a.Op, a.Lit))
		}
		j := " and "
		if q.Field.Or {
			j = " or "
		}
		conds = append(conds, "("+strings.Join(as, j)+")")
	}
	if len(conds) > 0 {
		s += " where " + strings.Join(conds, " and ")
	}
	var gb []string
	if q.Interval > 0 {
		gb = append(gb, fmt.Sprintf("time(%dns)", q.Interval))
	}
	if q.GroupAll {
		gb = append(gb, "*")
	}
	for _, g := range q.GroupBy {
		gb = append(gb, bb.Quote(g))
	}
	if len(gb) > 0 {
		s += " group by " + strings.Join(gb, ", ")
	}
	if q.Fill != "" {
		s += " fill(" + q.Fill + ")"
	}
	if q.Desc {
		s += " order by time desc"
	}
	if q.Limit > 0 {
		s += fmt.Sprintf(" limit %d", q.Limit)
	}
	if q.Offset > 0 {
		s += fmt.Sprintf(" offset %d", q.Offset)
	}
	return s
}

// ---------------------------------------------------------------- predicates

func tagAtomMatch(a TagAtom, tags map[string]string) bool {
	v := tags[a.Key] // absent tag == ""
	switch a.Op {
	case "=":
		return v == a.Val
	case "!=":
		return v != a.Val
	case "=~":
		return regexp.MustCompile(a.Val).MatchString(v)
	default:
		return !regexp.MustCompile(a.Val).MatchString(v)
	}
}

func (p *TagPred) Match(tags map[string]string) bool {
	if p == nil || len(p.Atoms) == 0 {
		return true
	}
	for _, a := range p.Atoms {
		m := tagAtomMatch(a, tags)
		if p.Or && m {
			return true
		}
		if !p.Or && !m {
			return false
		}
	}
	return !p.Or
}

// fieldAtomMatch returns (result, definite): definite=false when the operand is null and the operator is a
// negation (the answer is then taken as "either" by the caller).
func fieldAtomMatch(a FieldAtom, fields map[string]model.Value) (bool, bool) {
	v, ok := fields[a.Field]
	if !ok {
		return false, a.Op != "!="
	}
	var cmp int
	switch v.K {
	case model.String:
		lit := strings.Trim(a.Lit, "'")
		cmp = strings.Compare(v.S, lit)
	case model.Bool:
		lb := a.Lit == "true"
		if v.B == lb {
			cmp = 0
		} else {
			cmp = 1
		}
	default:
		lf, _ := strconv.ParseFloat(a.Lit, 64)
		x := v.Num()
		switch {
		case x < lf:
			cmp = -1
		case x > lf:
			cmp = 1
		}
	}
	switch a.Op {
	case "=":
		return cmp == 0, true
	case "!=":
		return cmp != 0, true
	case "<":
		return cmp < 0, true
	case "<=":
		return cmp <= 0, true
	case ">":
		return cmp > 0, true
	default:
		return cmp >= 0, true
	}
}

// Match returns 1 (true), 0 (false) or -1 (undetermined: involves != on a null operand).
func (p *FieldPred) Match(fields map[string]model.Value) int {
	if p == nil || len(p.Atoms) == 0 {
		return 1
	}
	res := 1
	if p.Or {
		res = 0
	}
	undet := false
	for _, a := range p.Atoms {
		m, def := fieldAtomMatch(a, fields)
		if !def {
			undet = true
			continue
		}
		if p.Or && m {
			return 1
		}
		if !p.Or && !m {
			return 0
		}
	}
	if undet {
		return -1
	}
	return res
}

// ---------------------------------------------------------------- expected answers

// Cell: admissible values of one result cell. nil entry = null.
type Cell struct {
	Alts []*model.Value
	Any  bool // any value admissible (e.g. a numeric fill value in a bool/string column)
}

func exact(v *model.Value) Cell { return Cell{Alts: []*model.Value{v}} }

type ERow struct {
	Times    []int64 // admissible timestamps
	Cells    []Cell
	Optional bool // the row may be present or absent
}

type ESeries struct {
	Tags map[string]string
	Rows []ERow
}

type Expected struct {
	Columns  []string
	Series   []ESeries
	Multiset bool // single ungrouped series of raw rows: compare as time-ordered multiset
	Window   bool // limit/offset window over a multiset
	Limit    int
	Offset   int
	Desc     bool
	Agg      bool
	FillNum  *float64
}

// emptyGroup: every cell of the returned group is null, 0 for a count column, or the fill value.
func emptyGroup(exp Expected, se bb.Series) bool {
	for _, v := range se.Values {
		for ci := 1; ci < len(v); ci++ {
			if v[ci] == nil {
				continue
			}
			n, ok := v[ci].(json.Number)
			if !ok {
				return false
			}
			f, err := strconv.ParseFloat(n.String(), 64)
			if err != nil {
				return false
			}
			isCount := ci < len(exp.Columns) && strings.HasPrefix(exp.Columns[ci], "count")
			if (isCount && f == 0) || (exp.FillNum != nil && f == *exp.FillNum) {
				continue
			}
			return false
		}
	}
	return true
}

func cleanTags(t map[string]string) map[string]string {
	o := map[string]string{}
	for k, v := range t {
		if v != "" {
			o[k] = v
		}
	}
	return o
}

func groupKeyOf(q Query, tags map[string]string) (string, map[string]string) {
	g := map[string]string{}
	if q.GroupAll {
		g = cleanTags(tags)
	} else {
		for _, k := range q.GroupBy {
			if v := tags[k]; v != "" {
				g[k] = v
			}
		}
	}
	return model.SeriesKeyOf("", g), g
}

func (q Query) inRange(t int64) bool {
	return (!q.HasTMin || t >= q.TMin) && (!q.HasTMax || t <= q.TMax)
}

// Eval computes the expected answer of q over rows (all rows of the measurement).
func Eval(q Query, rows []Row, fieldNames []string) Expected {
	if q.IsAgg() {
		return evalAgg(q, rows)
	}
	return evalRaw(q, rows, fieldNames)
}

func evalRaw(q Query, rows []Row, fieldNames []string) Expected {
	// columns
	var cols []string
	tagCols := map[string]bool{}
	if q.Star {
		names := map[string]bool{}
		for _, r := range rows {
			for f := range r.Fields {
				names[f] = true
			}
			if !q.GroupAll {
				for k, v := range r.Tags {
					if v != "" {
						names[k] = true
						tagCols[k] = true
					}
				}
			}
		}
		for n := range names {
			cols = append(cols, n)
		}
		sort.Strings(cols)
	} else {
		for _, c := range q.Sel {
			cols = append(cols, c.Field)
		}
	}
	exp := Expected{Columns: append([]string{"time"}, cols...), Desc: q.Desc}
	groups := map[string]*ESeries{}
	var order []string
	for _, r := range rows {
		if !q.inRange(r.Time) || !q.Tag.Match(r.Tags) {
			continue
		}
		fm := q.Field.Match(r.Fields)
		if fm == 0 {
			continue
		}
		er := ERow{Times: []int64{r.Time}, Optional: fm < 0}
		allNull := true
		for _, c := range cols {
			if tagCols[c] {
				if v, ok := r.Tags[c]; ok && v != "" {
					sv := model.StrV(v)
					er.Cells = append(er.Cells, exact(&sv))
				} else {
					er.Cells = append(er.Cells, exact(nil))
				}
				continue
			}
			if v, ok := r.Fields[c]; ok {
				vv := v
				er.Cells = append(er.Cells, exact(&vv))
				allNull = false
			} else {
				er.Cells = append(er.Cells, exact(nil))
			}
		}
		if allNull {
			if q.Field == nil || len(q.Field.Atoms) == 0 {
				continue // rows whose selected fields are all null are omitted
			}
			er.Optional = true // with a field condition the row is returned with nulls; accepted either way
		}
		gk, gt := "", map[string]string{}
		if q.GroupAll || len(q.GroupBy) > 0 {
			gk, gt = groupKeyOf(q, r.Tags)
		}
		g := groups[gk]
		if g == nil {
			g = &ESeries{Tags: gt}
			groups[gk] = g
			order = append(order, gk)
		}
		g.Rows = append(g.Rows, er)
	}
	sort.Strings(order)
	for _, k := range order {
		g := groups[k]
		sort.SliceStable(g.Rows, func(i, j int) bool { return g.Rows[i].Times[0] < g.Rows[j].Times[0] })
		if q.Desc {
			reverse(g.Rows)
		}
		exp.Series = append(exp.Series, *g)
	}
	if !q.GroupAll && len(q.GroupBy) == 0 {
		exp.Multiset = true
		if q.Limit > 0 || q.Offset > 0 {
			exp.Window, exp.Limit, exp.Offset = true, q.Limit, q.Offset
		}
	}
	return exp
}

func reverse(r []ERow) {
	for i, j := 0, len(r)-1; i < j; i, j = i+1, j-1 {
		r[i], r[j] = r[j], r[i]
	}
}

type point struct {
	t int64
	v model.Value
}

// aggregate of one call over points (in time order). Returns admissible cells and, for selectors, the
// admissible timestamps of the selected point.
func aggregate(fn string, pts []point) (Cell, []int64) {
	if len(pts) == 0 {
		return exact(nil), nil
	}
	switch fn {
	case "count":
		v := model.IntV(int64(len(pts)))
		return exact(&v), nil
	case "sum":
		if pts[0].v.K == model.Int {
			var s int64
			for _, p := range pts {
				s += p.v.I
			}
			v := model.IntV(s)
			return exact(&v), nil
		}
		var s float64
		for _, p := range pts {
			s += p.v.F
		}
		v := model.FloatV(s)
		return exact(&v), nil
	case "mean":
		var s float64
		for _, p := range pts {
			s += p.v.Num()
		}
		v := model.FloatV(s / float64(len(pts)))
		return exact(&v), nil
	case "min", "max":
		best := pts[0].v
		for _, p := range pts[1:] {
			if (fn == "min" && p.v.Num() < best.Num()) || (fn == "max" && p.v.Num() > best.Num()) {
				best = p.v
			}
		}
		var ts []int64
		for _, p := range pts {
			if p.v.Num() == best.Num() {
				ts = append(ts, p.t)
			}
		}
		b := best
		return exact(&b), ts
	case "first", "last":
		tt := pts[0].t
		for _, p := range pts {
			if (fn == "first" && p.t < tt) || (fn == "last" && p.t > tt) {
				tt = p.t
			}
		}
		var c Cell
		for _, p := range pts {
			if p.t == tt {
				v := p.v
				dup := false
				for _, a := range c.Alts {
					if a.Equal(v) {
						dup = true
					}
				}
				if !dup {
					c.Alts = append(c.Alts, &v)
				}
			}
		}
		return c, []int64{tt}
	}
	panic("qref: unknown function " + fn)
}

func distinctCalls(sel []Call) int {
	seen := map[Call]bool{}
	for _, c := range sel {
		seen[c] = true
	}
	return len(seen)
}

func isSelector(fn string) bool { return fn == "min" || fn == "max" || fn == "first" || fn == "last" }

func floorDiv(a, b int64) int64 {
	d := a / b
	if a%b != 0 && (a < 0) != (b < 0) {
		d--
	}
	return d
}

func evalAgg(q Query, rows []Row) Expected {
	cols := []string{"time"}
	seen := map[string]int{}
	for _, c := range q.Sel {
		n := c.Func
		if k := seen[c.Func]; k > 0 {
			n = fmt.Sprintf("%s_%d", c.Func, k)
		}
		seen[c.Func]++
		cols = append(cols, n)
	}
	exp := Expected{Columns: cols, Desc: q.Desc, Agg: true}
	if f, err := strconv.ParseFloat(q.Fill, 64); err == nil {
		exp.FillNum = &f
	}
	type grp struct {
		tags map[string]string
		rows []Row
	}
	groups := map[string]*grp{}
	for _, r := range rows {
		if !q.inRange(r.Time) || !q.Tag.Match(r.Tags) {
			continue
		}
		fm := q.Field.Match(r.Fields)
		if fm == 0 {
			continue
		}
		if fm < 0 {
			panic("qref: undetermined field predicate in an aggregate (generator must not produce it)")
		}
		gk, gt := groupKeyOf(q, r.Tags)
		g := groups[gk]
		if g == nil {
			g = &grp{tags: gt}
			groups[gk] = g
		}
		g.rows = append(g.rows, r)
	}
	var keys []string
	for k := range groups {
		keys = append(keys, k)
	}
	sort.Strings(keys)
	for _, k := range keys {
		g := groups[k]
		sort.SliceStable(g.rows, func(i, j int) bool { return g.rows[i].Time < g.rows[j].Time })
		es := ESeries{Tags: g.tags}
		bucketsOf := func(lo, hi int64, has bool) []ERow {
			// one row for the rows with lo <= t < hi (has=false: no bucket bounds)
			er := ERow{}
			any := false
			var selTimes []int64
			for _, c := range q.Sel {
				var pts []point
				for _, r := range g.rows {
					if has && (r.Time < lo || r.Time >= hi) {
						continue
					}
					if v, ok := r.Fields[c.Field]; ok {
						pts = append(pts, point{r.Time, v})
					}
				}
				cell, ts := aggregate(c.Func, pts)
				if len(pts) > 0 {
					any = true
				}
				er.Cells = append(er.Cells, cell)
				selTimes = ts
			}
			if !any {
				return nil
			}
			switch {
			case has:
				er.Times = []int64{lo}
			case distinctCalls(q.Sel) == 1 && isSelector(q.Sel[0].Func):
				er.Times = selTimes // (the same call written twice is still a lone selector)
			case q.HasTMin:
				er.Times = []int64{q.TMin}
			default:
				er.Times = []int64{0}
			}
			return []ERow{er}
		}
		if q.Interval == 0 {
			es.Rows = bucketsOf(0, 0, false)
			if len(es.Rows) == 0 {
				continue
			}
			exp.Series = append(exp.Series, es)
			continue
		}
		// time buckets: epoch aligned, from the bucket holding TMin to the one holding TMax
		first := floorDiv(q.TMin, q.Interval) * q.Interval
		last := floorDiv(q.TMax, q.Interval) * q.Interval
		anyRow := false
		var prev []Cell
		for b := first; b <= last; b += q.Interval {
			rs := bucketsOf(b, b+q.Interval, true)
			var er ERow
			empty := rs == nil
			if empty {
				er = ERow{Times: []int64{b}}
				for range q.Sel {
					er.Cells = append(er.Cells, exact(nil))
				}
			} else {
				er = rs[0]
				anyRow = true
			}
			if q.Fill == "none" && empty {
				continue
			}
			// per-cell fill
			for ci := range er.Cells {
				c := er.Cells[ci]
				if len(c.Alts) != 1 || c.Alts[0] != nil {
					continue
				}
				switch {
				case q.Fill == "" || q.Fill == "null":
					if q.Sel[ci].Func == "count" {
						z := model.IntV(0)
						er.Cells[ci] = Cell{Alts: []*model.Value{nil, &z}} // observed: null; classic InfluxQL: 0
					}
				case q.Fill == "none":
				case q.Fill == "previous":
					if prev != nil {
						er.Cells[ci] = prev[ci]
					}
				default:
					f, _ := strconv.ParseFloat(q.Fill, 64)
					v := model.FloatV(f)
					er.Cells[ci] = exact(&v)
					if f != math.Trunc(f) {
						// an integer-typed column (count, or an aggregate of an integer field) shows the number truncated
						tv := model.FloatV(math.Trunc(f))
						if q.Sel[ci].Func == "count" || (q.Sel[ci].Field == "i" && q.Sel[ci].Func != "mean") {
							er.Cells[ci] = Cell{Alts: []*model.Value{&v, &tv}}
						}
					}
					if q.Sel[ci].Field == "b" || q.Sel[ci].Field == "s" {
						if q.Sel[ci].Func != "count" {
							er.Cells[ci] = Cell{Any: true} // how a number fills a bool/string column is not specified
						}
					}
				}
			}
			prev = er.Cells
			es.Rows = append(es.Rows, er)
		}
		if !anyRow {
			continue
		}
		if q.Desc {
			reverse(es.Rows)
		}
		exp.Series = append(exp.Series, es)
	}
	return exp
}

// ---------------------------------------------------------------- comparison with a server answer

func cellStr(c Cell) string {
	if c.Any {
		return "<any>"
	}
	var s []string
	for _, a := range c.Alts {
		if a == nil {
			s = append(s, "null")
		} else {
			s = append(s, a.String())
		}
	}
	return strings.Join(s, "|")
}

func (r ERow) String() string {
	s := fmt.Sprintf("t=%v", r.Times)
	for _, c := range r.Cells {
		s += " " + cellStr(c)
	}
	if r.Optional {
		s += " (optional)"
	}
	return s
}

func numEq(a, b float64) bool {
	if a == b || (math.IsNaN(a) && math.IsNaN(b)) {
		return true
	}
	d := math.Abs(a - b)
	return d <= 1e-12*math.Max(math.Abs(a), math.Abs(b))
}

// cellAdmits: got is the raw JSON cell (nil, json.Number, string, bool).
func cellAdmits(c Cell, got any) bool {
	if c.Any {
		return true
	}
	for _, a := range c.Alts {
		if a == nil {
			if got == nil {
				return true
			}
			continue
		}
		switch a.K {
		case model.Int, model.Float:
			n, ok := got.(json.Number)
			if !ok {
				continue
			}
			if a.K == model.Int {
				if i, err := strconv.ParseInt(n.String(), 10, 64); err == nil {
					if i == a.I {
						return true
					}
					continue
				}
			}
			f, err := strconv.ParseFloat(n.String(), 64)
			if err == nil && numEq(f, a.Num()) {
				return true
			}
		case model.String:
			if s, ok := got.(string); ok && s == a.S {
				return true
			}
		case model.Bool:
			if b, ok := got.(bool); ok && b == a.B {
				return true
			}
		}
	}
	return false
}

func timeOf(x any) (int64, bool) {
	n, ok := x.(json.Number)
	if !ok {
		return 0, false
	}
	i, err := strconv.ParseInt(n.String(), 10, 64)
	return i, err == nil
}

func rowAdmits(e ERow, vals []any) bool {
	t, ok := timeOf(vals[0])
	if !ok {
		return false
	}
	okT := false
	for _, x := range e.Times {
		if x == t {
			okT = true
		}
	}
	if !okT || len(vals)-1 != len(e.Cells) {
		return false
	}
	for i, c := range e.Cells {
		if !cellAdmits(c, vals[i+1]) {
			return false
		}
	}
	return true
}

func valsStr(v []any) string {
	b, _ := json.Marshal(v)
	return string(b)
}

// Compare checks a server answer against the expectation; "" = admissible.
func Compare(exp Expected, series []bb.Series) string {
	if exp.Multiset {
		return compareMultiset(exp, series)
	}
	used := map[int]bool{}
	for _, se := range series {
		key := model.SeriesKeyOf("", se.Tags)
		idx := -1
		for i, es := range exp.Series {
			if model.SeriesKeyOf("", es.Tags) == key {
				idx = i
			}
		}
		if idx < 0 {
			if exp.Agg && emptyGroup(exp, se) {
				continue // a group none of whose rows carries a value may be listed or omitted
			}
			return fmt.Sprintf("unexpected series/group {%s} with %d rows, first %s", key, len(se.Values), valsStr(se.Values[0]))
		}
		if used[idx] {
			return fmt.Sprintf("series/group {%s} returned twice", key)
		}
		used[idx] = true
		if strings.Join(se.Columns, ",") != strings.Join(exp.Columns, ",") {
			return fmt.Sprintf("columns %v, expected %v", se.Columns, exp.Columns)
		}
		if d := matchRows(exp.Series[idx].Rows, se.Values); d != "" {
			return fmt.Sprintf("series/group {%s}: %s", key, d)
		}
	}
	for i, es := range exp.Series {
		if used[i] {
			continue
		}
		allOpt := true
		for _, r := range es.Rows {
			if !r.Optional {
				allOpt = false
			}
		}
		if !allOpt {
			return fmt.Sprintf("series/group {%s} missing (%d rows expected, first: %s)", model.SeriesKeyOf("", es.Tags), len(es.Rows), es.Rows[0])
		}
	}
	// series order: ascending by tag set, reversed for DESC (checked only when all groups are present)
	return ""
}

// matchRows: got must equal exp in time order; rows of equal time form a multiset (several series merged into
// one group: the order among equal timestamps is unspecified); optional expected rows may be absent.
func matchRows(exp []ERow, got [][]any) string {
	gi := 0
	ei := 0
	for ei < len(exp) {
		// block of expected rows sharing their (first admissible) time
		ej := ei + 1 // a row with several admissible timestamps forms a block of its own
		for ej < len(exp) && sameTimes(exp[ej], exp[ei]) {
			ej++
		}
		block := exp[ei:ej]
		used := make([]bool, len(block))
		// consume got rows that match some unused row of the block
		for gi < len(got) {
			found := -1
			for bi, e := range block {
				if !used[bi] && rowAdmits(e, got[gi]) {
					found = bi
					break
				}
			}
			if found < 0 {
				break
			}
			used[found] = true
			gi++
		}
		for bi, e := range block {
			if !used[bi] && !e.Optional {
				if gi >= len(got) {
					return fmt.Sprintf("row missing: expected {%s} (got %d rows)", e, len(got))
				}
				return fmt.Sprintf("row %d is %s, expected {%s}", gi, valsStr(got[gi]), e)
			}
		}
		ei = ej
	}
	if gi < len(got) {
		return fmt.Sprintf("extra row %s (expected %d rows)", valsStr(got[gi]), len(exp))
	}
	return ""
}

func sameTimes(a, b ERow) bool {
	if len(a.Times) != 1 || len(b.Times) != 1 {
		return false
	}
	return a.Times[0] == b.Times[0]
}

func compareMultiset(exp Expected, series []bb.Series) string {
	var all []ERow
	for _, es := range exp.Series {
		all = append(all, es.Rows...)
	}
	var got [][]any
	if len(series) > 1 {
		return fmt.Sprintf("ungrouped selection returned %d series", len(series))
	}
	if len(series) == 1 {
		if strings.Join(series[0].Columns, ",") != strings.Join(exp.Columns, ",") {
			return fmt.Sprintf("columns %v, expected %v", series[0].Columns, exp.Columns)
		}
		got = series[0].Values
	}
	// time order
	var gtimes []int64
	for _, v := range got {
		t, ok := timeOf(v[0])
		if !ok {
			return "bad time in " + valsStr(v)
		}
		gtimes = append(gtimes, t)
	}
	for i := 1; i < len(gtimes); i++ {
		if (!exp.Desc && gtimes[i] < gtimes[i-1]) || (exp.Desc && gtimes[i] > gtimes[i-1]) {
			return fmt.Sprintf("rows not ordered by time at index %d", i)
		}
	}
	// every returned row must be a distinct expected row
	usedE := make([]bool, len(all))
	for _, v := range got {
		found := false
		for i, e := range all {
			if !usedE[i] && rowAdmits(e, v) {
				usedE[i] = true
				found = true
				break
			}
		}
		if !found {
			return fmt.Sprintf("row %s is not a row of the expected answer (or is returned more often than it exists)", valsStr(v))
		}
	}
	if !exp.Window {
		for i, e := range all {
			if !usedE[i] && !e.Optional {
				return fmt.Sprintf("row missing: {%s} (got %d rows, expected %d)", e, len(got), len(all))
			}
		}
		return ""
	}
	// limit/offset window of the time-ordered answer (tie order free). Optional rows make the window
	// ambiguous: the generator does not combine them (checked by the caller), so all rows are definite.
	times := make([]int64, 0, len(all))
	for _, e := range all {
		times = append(times, e.Times[0])
	}
	sort.Slice(times, func(i, j int) bool {
		if exp.Desc {
			return times[i] > times[j]
		}
		return times[i] < times[j]
	})
	lo := min(exp.Offset, len(times))
	hi := len(times)
	if exp.Limit > 0 {
		hi = min(lo+exp.Limit, len(times))
	}
	want := times[lo:hi]
	if len(want) != len(gtimes) {
		return fmt.Sprintf("limit/offset window has %d rows, expected %d", len(gtimes), len(want))
	}
	for i := range want {
		if want[i] != gtimes[i] {
			return fmt.Sprintf("limit/offset window row %d has time %d, expected %d", i, gtimes[i], want[i])
		}
	}
	return ""
}

// RowsFromStore lists the rows of a measurement in the model.
func RowsFromStore(st *model.Store, mst string) []Row {
	var out []Row
	for _, sd := range st.Series {
		if sd.Mst != mst {
			continue
		}
		for t, row := range sd.Rows {
			r := Row{Tags: sd.Tags, Time: t, Fields: map[string]model.Value{}}
			for f, c := range row {
				if c.MayAbsent || len(c.Alts) != 1 {
					panic("qref: uncertain cell")
				}
				r.Fields[f] = c.Alts[0]
			}
			if len(r.Fields) > 0 {
				out = append(out, r)
			}
		}
	}
	sort.Slice(out, func(i, j int) bool {
		if out[i].Time != out[j].Time {
			return out[i].Time < out[j].Time
		}
		return model.SeriesKeyOf("", out[i].Tags) < model.SeriesKeyOf("", out[j].Tags)
	})
	return out
}

// SeriesWithOnlyNullAggregates reports whether some series has rows passing the filters of an aggregate query
// while none of those rows carries a value of any aggregated field (used to delimit a known-finding class).
func SeriesWithOnlyNullAggregates(q Query, rows []Row) bool {
	type st struct{ pass, val bool }
	m := map[string]*st{}
	for _, r := range rows {
		if !q.inRange(r.Time) || !q.Tag.Match(r.Tags) || q.Field.Match(r.Fields) != 1 {
			continue
		}
		k := model.SeriesKeyOf("", r.Tags)
		if m[k] == nil {
			m[k] = &st{}
		}
		m[k].pass = true
		for _, c := range q.Sel {
			if _, ok := r.Fields[c.Field]; ok {
				m[k].val = true
			}
		}
	}
	for _, x := range m {
		if x.pass && !x.val {
			return true
		}
	}
	return false
}
