// Package hist is the shared history engine of the black-box checks: an interpreter of operation lists
// (write / flush / reorganise / restart / read ...) against one real server plus the last-write-wins model.
// Properties contribute their action mix, query generators and oracles; replays re-execute recorded op lists.
package hist

import (
	"fmt"
	"sort"
	"strings"
	"time"

	"verif/internal/bb"
	"verif/internal/ev"
	"verif/internal/model"
)

// Schema: fixed field type per field name.
var Kinds = map[string]model.Kind{"i": model.Int, "f": model.Float, "s": model.String, "b": model.Bool}
var FieldNames = []string{"b", "f", "i", "s"}

const T0 = int64(1700000000) * 1e9
const Week = int64(7*24*3600) * 1e9

// TS maps a small index to a timestamp: 0..63 consecutive seconds in one shard group, 64..79 in the next group.
func TS(i int) int64 {
	if i < 64 {
		return T0 + int64(i)*1e9
	}
	return T0 + Week + int64(i-64)*1e9
}

// PointJ is the JSON form of a generated point.
type PointJ struct {
	Mst    string            `json:"m"`
	Tags   map[string]string `json:"tags"`
	T      int               `json:"t"`
	Fields map[string]string `json:"fields"` // rendered: ints "12", floats "1.5", strings, "true"/"false"
}

func (p PointJ) Model() model.Point {
	mp := model.Point{Mst: p.Mst, Tags: p.Tags, Time: TS(p.T), Fields: map[string]model.Value{}}
	for k, v := range p.Fields {
		switch Kinds[k] {
		case model.Int:
			var i int64
			fmt.Sscanf(v, "%d", &i)
			mp.Fields[k] = model.IntV(i)
		case model.Float:
			var f float64
			fmt.Sscanf(v, "%g", &f)
			mp.Fields[k] = model.FloatV(f)
		case model.String:
			mp.Fields[k] = model.StrV(v)
		default:
			mp.Fields[k] = model.BoolV(v == "true")
		}
	}
	return mp
}

// Read is a plain selection.
type Read struct {
	Mst     string   `json:"m"`
	Fields  []string `json:"fields,omitempty"` // empty: *
	TMin    int64    `json:"tmin"`             // absolute ns, inclusive
	TMax    int64    `json:"tmax"`             // absolute ns, inclusive
	NoTime  bool     `json:"notime,omitempty"` // no time condition at all
	Desc    bool     `json:"desc,omitempty"`
	Grouped bool     `json:"grouped"`            // group by *
	Host    string   `json:"host,omitempty"`     // tag filter host = '<Host>'
	Params  map[string]string `json:"params,omitempty"`
}

func (r Read) SQL() string {
	sel := "*"
	if len(r.Fields) > 0 {
		qs := make([]string, len(r.Fields))
		for i, f := range r.Fields {
			qs[i] = bb.Quote(f)
		}
		sel = strings.Join(qs, ", ")
	}
	q := "select " + sel + " from " + bb.Quote(r.Mst)
	var conds []string
	if !r.NoTime {
		conds = append(conds, fmt.Sprintf("time >= %d and time <= %d", r.TMin, r.TMax))
	}
	if r.Host != "" {
		conds = append(conds, "host = '"+r.Host+"'")
	}
	if len(conds) > 0 {
		q += " where " + strings.Join(conds, " and ")
	}
	if r.Grouped {
		q += " group by *"
	}
	if r.Desc {
		q += " order by time desc"
	}
	return q
}

// Op is one operation of a history (also the replay format).
type Op struct {
	Kind   string   `json:"op"`
	Points []PointJ `json:"points,omitempty"`
	Cmd    string   `json:"cmd,omitempty"` // reorg: merge | compact | full | all ; exec: statement
	Read   *Read    `json:"read,omitempty"`
	Arm    string   `json:"arm,omitempty"`
	K      int      `json:"k,omitempty"`
	Note   string   `json:"note,omitempty"`
}

// H is one running history.
type H struct {
	uncertainRead bool // set by Expect when the read range holds a cell of a write whose acknowledgement was lost

	Srv   *bb.Server
	St    *model.Store
	C     *ev.Case
	Fail  func(format string, a ...any)
	DB    string
	Prop  int
	Gen   int            // flush generation counter (bumped by every completed flush)
	CellGens map[string]map[int]bool // cell -> generations in which it was written
	Flushes  int
	Reorgs   map[string]int
	Restarts int
	Visible  map[string]bool
	FilesSeen map[string]bool // data file names ever seen (layout classification)
}

// InstanceCounter: when set, every history of the process gets its own server instance number (and address),
// so that one case can run several servers side by side.
var InstanceCounter bool
var nextInstance int

func New(c *ev.Case, prop int, knobs map[string]string, fail func(format string, a ...any)) *H {
	inst := 0
	if InstanceCounter {
		inst = nextInstance % 4
		nextInstance++
	}
	h := &H{St: model.NewStore(), C: c, Fail: fail, DB: "db0", Prop: prop, CellGens: map[string]map[int]bool{}, Reorgs: map[string]int{}, Visible: map[string]bool{}, FilesSeen: map[string]bool{}}
	h.Srv = bb.NewServer(bb.Options{Prop: prop, Instance: inst, Knobs: knobs})
	h.Srv.MustStart()
	h.Srv.MustExec("", "create database "+h.DB)
	c.Op(Op{Kind: "start"})
	return h
}

func (h *H) Close() { h.Srv.Destroy() }

func cellKey(p model.Point, f string) string {
	return fmt.Sprintf("%s|%d|%s", model.SeriesKeyOf(p.Mst, p.Tags), p.Time, f)
}

// Write sends the points (retrying 5xx refusals) and applies them to the model. Returns false if not acknowledged.
func (h *H) Write(ps []PointJ) bool {
	mps := make([]model.Point, len(ps))
	for i := range ps {
		mps[i] = ps[i].Model()
	}
	status, body := h.Srv.Write(h.DB, "", "ns", model.Lines(mps))
	for try := 0; status >= 500 && h.Srv.Alive() && try < 50; try++ {
		h.C.Class("write-refused-5xx")
		h.St.Apply(mps, false)
		time.Sleep(100 * time.Millisecond)
		status, body = h.Srv.Write(h.DB, "", "ns", model.Lines(mps))
	}
	if status != 204 {
		if status == 0 || !h.Srv.Alive() {
			h.St.Apply(mps, false)
			return false
		}
		h.Fail("valid write rejected with status %d: %s", status, body)
	}
	h.St.Apply(mps, true)
	for _, p := range mps {
		for f := range p.Fields {
			k := cellKey(p, f)
			if h.CellGens[k] == nil {
				h.CellGens[k] = map[int]bool{}
			}
			h.CellGens[k][h.Gen] = true
		}
	}
	// Wait until new series are visible to queries. The series index is per shard group, so visibility is
	// tracked per (series, shard group) and awaited by polling the written point itself (index raw items are
	// flushed about once per second); a point that never shows up is a lost acknowledged point.
	for _, p := range mps {
		k := fmt.Sprintf("%s|%d", model.SeriesKeyOf(p.Mst, p.Tags), (p.Time-T0+Week*1000)/Week)
		if h.Visible[k] {
			continue
		}
		h.Visible[k] = true
		if !h.awaitPoint(p, 20*time.Second) && h.Srv.Alive() {
			h.Fail("acknowledged point never became visible: %s", p.Line())
		}
	}
	return true
}

func (h *H) awaitPoint(p model.Point, d time.Duration) bool {
	q := fmt.Sprintf("select * from %s where time = %d", bb.Quote(p.Mst), p.Time)
	for k, v := range p.Tags {
		q += fmt.Sprintf(" and %s = '%s'", bb.Quote(k), v)
	}
	q += " group by *"
	want := model.SeriesKeyOf(p.Mst, p.Tags)
	deadline := time.Now().Add(d)
	for {
		res, err := h.Srv.Query(h.DB, q, nil)
		if err == nil && res.Err == "" && len(res.Results) > 0 {
			for _, se := range res.Results[0].Series {
				if model.SeriesKeyOf(se.Name, se.Tags) == want && len(se.Values) > 0 {
					return true
				}
			}
		}
		if time.Now().After(deadline) || !h.Srv.Alive() {
			return false
		}
		time.Sleep(100 * time.Millisecond)
	}
}

// Flush forces a flush; a completed flush starts a new generation.
func (h *H) Flush() {
	st, body := h.Srv.Flush()
	if st != 200 && st != 204 {
		if !h.Srv.Alive() {
			return
		}
		h.Fail("flush failed: %d %s", st, body)
	}
	h.Gen++
	h.Flushes++
}

// Reorg runs one harness-triggered merge/compaction pass and records whether the file set changed.
func (h *H) Reorg(cmd string) (changed bool) {
	before := strings.Join(h.DataFiles(), "\n")
	if !h.Srv.Reorg(cmd, 120*time.Second) {
		if !h.Srv.Alive() {
			return false
		}
		bb.Fatal("reorganisation pass %q did not finish in 120 s", cmd)
	}
	after := strings.Join(h.DataFiles(), "\n")
	if before != after {
		h.Reorgs[cmd]++
		h.C.Class("reorg-changed:" + cmd)
		return true
	}
	return false
}

// DataFiles lists the tssp files (relative paths).
func (h *H) DataFiles() []string {
	var out []string
	for _, f := range h.Srv.Files("data") {
		if strings.Contains(f, ".tssp") {
			out = append(out, f)
			h.FilesSeen[f] = true
		}
	}
	return out
}

// Layout summarises the current file layout: counts of ordered / out-of-order files and the max level.
func (h *H) Layout() (ordered, unordered, maxLevel int) {
	for _, f := range h.DataFiles() {
		if strings.Contains(f, "out-of-order") {
			unordered++
		} else {
			ordered++
		}
		base := f[strings.LastIndex(f, "/")+1:]
		parts := strings.Split(base, "-")
		if len(parts) >= 2 {
			var lv int
			fmt.Sscanf(parts[1], "%d", &lv)
			if lv > maxLevel {
				maxLevel = lv
			}
		}
	}
	return
}

// CleanRestart: SIGTERM, start, wait ready.
func (h *H) CleanRestart() {
	if !h.Srv.Term(120 * time.Second) {
		h.Fail("server did not exit within 120 s of SIGTERM")
	}
	h.Srv.Start("")
	if !h.Srv.WaitReady(90 * time.Second) {
		if p := h.Srv.PanicInLogs(); p != "" {
			h.Fail("server does not come back after a clean restart: %s", p)
		}
		bb.Fatal("server not ready after clean restart: %s", h.Srv.TailLog(1500))
	}
	h.Restarts++
	h.Gen++ // shutdown flushes
	h.AwaitState("clean restart")
}

// AwaitState polls the full contents until they equal the model or 30 s passed (after a (re)start the HTTP
// endpoint answers before all shards are open); only the final state is judged.
func (h *H) AwaitState(when string) {
	msts := map[string]bool{}
	for _, sd := range h.St.Series {
		msts[sd.Mst] = true
	}
	deadline := time.Now().Add(30 * time.Second)
	for {
		diff := ""
		for m := range msts {
			if d := h.CheckRead(Read{Mst: m, NoTime: true, Grouped: true}); d != "" {
				diff = m + ": " + d
				break
			}
		}
		if diff == "" {
			return
		}
		if !h.Srv.Alive() {
			bb.Fatal("server died after %s: %s", when, h.Srv.TailLog(1500))
		}
		if time.Now().After(deadline) {
			h.Fail("30 s after %s the contents still differ from the acknowledged history: %s", when, diff)
		}
		time.Sleep(250 * time.Millisecond)
	}
}

// ---------------------------------------------------------------- reads against the model

// Row of a reference result.
type Row struct {
	Time   int64
	Fields map[string]model.Value
}

// Expected rows of a read per series key (only series with at least one row).
func (h *H) Expect(r Read) map[string][]Row {
	out := map[string][]Row{}
	for key, sd := range h.St.Series {
		if sd.Mst != r.Mst {
			continue
		}
		if r.Host != "" && sd.Tags["host"] != r.Host {
			continue
		}
		var rows []Row
		for t, row := range sd.Rows {
			if !r.NoTime && (t < r.TMin || t > r.TMax) {
				continue
			}
			fs := map[string]model.Value{}
			for f, c := range row {
				if len(r.Fields) > 0 && !contains(r.Fields, f) {
					continue
				}
				if c.MayAbsent || len(c.Alts) != 1 {
					// a cell touched by a write whose acknowledgement was lost (the server died under it): the exact
					// comparison of this read is not defined; CheckRead skips it (counted), full dumps use Store.Compare
					h.uncertainRead = true
					if len(c.Alts) == 0 {
						continue
					}
				}
				fs[f] = c.Alts[0]
			}
			if len(fs) > 0 {
				rows = append(rows, Row{Time: t, Fields: fs})
			}
		}
		if len(rows) == 0 {
			continue
		}
		sort.Slice(rows, func(i, j int) bool { return rows[i].Time < rows[j].Time })
		if r.Desc {
			for i, j := 0, len(rows)-1; i < j; i, j = i+1, j-1 {
				rows[i], rows[j] = rows[j], rows[i]
			}
		}
		out[key] = rows
	}
	return out
}

func contains(l []string, s string) bool {
	for _, x := range l {
		if x == s {
			return true
		}
	}
	return false
}

// CheckRead runs the read and compares with the model. Returns a description of the first difference ("" = equal).
func (h *H) CheckRead(r Read) string {
	res, err := h.Srv.Query(h.DB, r.SQL(), r.Params)
	if err != nil {
		if !h.Srv.Alive() {
			return ""
		}
		return "query failed: " + err.Error()
	}
	h.uncertainRead = false
	exp := h.Expect(r)
	if h.uncertainRead {
		h.C.Class("read-skipped(uncertain-cells-in-range)")
		return ""
	}
	if res.Err != "" {
		if len(exp) == 0 && (strings.Contains(res.Err, "measurement not found") || strings.Contains(res.Err, "not found")) {
			return ""
		}
		return "query error: " + res.Err
	}
	var series []bb.Series
	if len(res.Results) > 0 {
		series = res.Results[0].Series
	}
	if r.Grouped {
		return compareGrouped(series, exp, r.Desc)
	}
	return compareUngrouped(series, exp, r)
}

func decodeRows(se bb.Series) ([]Row, []string, error) {
	var rows []Row
	if len(se.Columns) == 0 || se.Columns[0] != "time" {
		return nil, nil, fmt.Errorf("first column is not time: %v", se.Columns)
	}
	for _, vals := range se.Values {
		var ts int64
		if _, err := fmt.Sscan(fmt.Sprint(vals[0]), &ts); err != nil {
			return nil, nil, fmt.Errorf("bad time %v", vals[0])
		}
		row := Row{Time: ts, Fields: map[string]model.Value{}}
		for ci := 1; ci < len(se.Columns); ci++ {
			if vals[ci] == nil {
				continue
			}
			name := se.Columns[ci]
			k, ok := Kinds[name]
			if !ok {
				// a tag column of an ungrouped select *
				if s, ok := vals[ci].(string); ok {
					row.Fields["tag:"+name] = model.StrV(s)
					continue
				}
				return nil, nil, fmt.Errorf("unknown column %q", name)
			}
			v, err := bb.ToValue(vals[ci], k)
			if err != nil {
				return nil, nil, fmt.Errorf("time %d column %s: %v", ts, name, err)
			}
			row.Fields[name] = v
		}
		rows = append(rows, row)
	}
	return rows, se.Columns, nil
}

func rowEq(a, b Row) bool {
	if a.Time != b.Time || len(a.Fields) != len(b.Fields) {
		return false
	}
	for k, v := range a.Fields {
		w, ok := b.Fields[k]
		if !ok || !v.Equal(w) {
			return false
		}
	}
	return true
}

func rowStr(r Row) string {
	ks := make([]string, 0, len(r.Fields))
	for k := range r.Fields {
		ks = append(ks, k)
	}
	sort.Strings(ks)
	s := fmt.Sprintf("t=%d", r.Time)
	for _, k := range ks {
		s += " " + k + "=" + r.Fields[k].String()
	}
	return s
}

func compareGrouped(series []bb.Series, exp map[string][]Row, desc bool) string {
	seen := map[string]bool{}
	for _, se := range series {
		key := model.SeriesKeyOf(se.Name, se.Tags)
		if seen[key] {
			return "series " + key + " returned twice"
		}
		seen[key] = true
		got, _, err := decodeRows(se)
		if err != nil {
			return "series " + key + ": " + err.Error()
		}
		want := exp[key]
		if want == nil {
			return fmt.Sprintf("series %s returned (%d rows) but the model has no matching row, first: %s", key, len(got), rowStr(got[0]))
		}
		for i := 0; i < len(got) || i < len(want); i++ {
			if i >= len(got) {
				return fmt.Sprintf("series %s: row missing: %s (got %d rows, want %d)", key, rowStr(want[i]), len(got), len(want))
			}
			if i >= len(want) {
				return fmt.Sprintf("series %s: extra row: %s (got %d rows, want %d)", key, rowStr(got[i]), len(got), len(want))
			}
			if !rowEq(got[i], want[i]) {
				return fmt.Sprintf("series %s row %d: got {%s} want {%s}", key, i, rowStr(got[i]), rowStr(want[i]))
			}
		}
	}
	for key, want := range exp {
		if !seen[key] {
			return fmt.Sprintf("series %s missing from the result (%d rows expected, first: %s)", key, len(want), rowStr(want[0]))
		}
	}
	return ""
}

// compareUngrouped: rows of all series merged; order among equal timestamps is unspecified, so compare as
// time-ordered multiset. Tag columns (select *) are checked against the series they must come from.
func compareUngrouped(series []bb.Series, exp map[string][]Row, r Read) string {
	var want []string
	for key, rows := range exp {
		sd := key
		_ = sd
		for _, row := range rows {
			w := Row{Time: row.Time, Fields: map[string]model.Value{}}
			for k, v := range row.Fields {
				w.Fields[k] = v
			}
			if len(r.Fields) == 0 {
				// select * without grouping shows tags as columns
				for _, kv := range strings.Split(key, ",")[1:] {
					p := strings.SplitN(kv, "=", 2)
					w.Fields["tag:"+p[0]] = model.StrV(p[1])
				}
			}
			want = append(want, rowStr(w))
		}
	}
	var got []string
	var times []int64
	if len(series) > 1 {
		return fmt.Sprintf("ungrouped selection returned %d series", len(series))
	}
	for _, se := range series {
		rows, _, err := decodeRows(se)
		if err != nil {
			return err.Error()
		}
		for _, row := range rows {
			got = append(got, rowStr(row))
			times = append(times, row.Time)
		}
	}
	for i := 1; i < len(times); i++ {
		if (!r.Desc && times[i] < times[i-1]) || (r.Desc && times[i] > times[i-1]) {
			return fmt.Sprintf("rows not ordered by time at index %d: %d after %d", i, times[i], times[i-1])
		}
	}
	sort.Strings(want)
	sort.Strings(got)
	for i := 0; i < len(got) || i < len(want); i++ {
		if i >= len(got) {
			return fmt.Sprintf("row missing: {%s} (got %d rows, want %d)", want[i], len(got), len(want))
		}
		if i >= len(want) {
			return fmt.Sprintf("extra row: {%s} (got %d rows, want %d)", got[i], len(got), len(want))
		}
		if got[i] != want[i] {
			return fmt.Sprintf("rows differ: got {%s} want {%s}", got[i], want[i])
		}
	}
	return ""
}

// ReadSpansLayers: the number of distinct generations that hold a version of some cell inside the read, and
// whether some (series,time) was written in >= 2 generations.
func (h *H) ReadSpansLayers(r Read) (layers int, overwritten bool) {
	gens := map[int]bool{}
	for key, sd := range h.St.Series {
		if sd.Mst != r.Mst || (r.Host != "" && sd.Tags["host"] != r.Host) {
			continue
		}
		for t, row := range sd.Rows {
			if !r.NoTime && (t < r.TMin || t > r.TMax) {
				continue
			}
			rowGens := map[int]bool{}
			for f := range row {
				for g := range h.CellGens[fmt.Sprintf("%s|%d|%s", key, t, f)] {
					gens[g] = true
					rowGens[g] = true
				}
			}
			if len(rowGens) >= 2 {
				overwritten = true
			}
		}
	}
	return len(gens), overwritten
}
