// Package bb is the black-box harness: it renders a configuration, starts the real ts-server
// binary (built from /repo with -tags verif) on its own loopback address, and talks to it over HTTP.
package bb

import (
	"bytes"
	"encoding/json"
	"fmt"
	"io"
	"net"
	"net/http"
	"net/url"
	"os"
	"os/exec"
	"path/filepath"
	"regexp"
	"sort"
	"strconv"
	"strings"
	"sync"
	"syscall"
	"time"
)

// Inconclusive is the panic value for harness problems (server does not start, ...): never a violation.
type Inconclusive struct{ Msg string }

func (e Inconclusive) Error() string { return "VERIF-INCONCLUSIVE: " + e.Msg }

func Fatal(format string, a ...any) {
	msg := fmt.Sprintf(format, a...)
	fmt.Fprintln(os.Stderr, "VERIF-INCONCLUSIVE: "+msg)
	// leave a marker for the driver, then stop the whole test process
	if d := os.Getenv("VERIF_FAILDIR"); d != "" {
		_ = os.MkdirAll(d, 0o755)
		b, _ := json.Marshal(map[string]any{"inconclusive": true, "message": msg})
		_ = os.WriteFile(filepath.Join(d, fmt.Sprintf("inconclusive-%d.json", os.Getpid())), b, 0o644)
	}
	CleanupAll()
	os.Exit(3)
}

// Options of one server instance.
type Options struct {
	Prop     int // property number (part of the loopback address)
	Instance int // instance number within the property run
	Knobs    map[string]string
	// Knobs understood: max-rows-per-segment, ptnum-pernode, retention-check-interval, auth-enabled,
	// write-cold-duration, wal-enabled, shard-mutable-size-limit, node-mutable-size-limit
	CPUs   int // >0: taskset to that many CPUs (selects the WAL partition count)
	Race   bool
	NoHook bool // do not set the fileops trace/arm environment
	Env    []string
}

type Server struct {
	Opt     Options
	IP      string
	Dir     string
	Bin     string
	cmd     *exec.Cmd
	waitCh  chan struct{}
	exitErr error
	mu      sync.Mutex
	HTTP    *http.Client
	User    string
	Pass    string
	armEnv  string
	started int
}

var (
	allMu       sync.Mutex
	allSrv      []*Server
	baseDir     string
	clusterMu   sync.Mutex
	allClusters []*Cluster
)

func runBase() string {
	if baseDir != "" {
		return baseDir
	}
	root := "/dev/shm"
	if r := os.Getenv("VERIF_RUNROOT"); r != "" {
		root = r // development aid (tools/hunt.sh): keep one run's directories apart
		_ = os.MkdirAll(root, 0o755)
	}
	if st, err := os.Stat(root); err != nil || !st.IsDir() {
		root = filepath.Join(os.Getenv("VERIF_ROOT"), ".run")
	}
	baseDir = filepath.Join(root, fmt.Sprintf("verif-%s-%d", os.Getenv("VERIF_TAG"), os.Getpid()))
	_ = os.MkdirAll(baseDir, 0o755)
	return baseDir
}

// CleanupAll kills every server started by this process and removes their directories.
func CleanupAll() {
	allMu.Lock()
	defer allMu.Unlock()
	for _, s := range allSrv {
		s.killNoLock()
	}
	allSrv = nil
	clusterMu.Lock()
	for _, c := range allClusters {
		c.Destroy()
	}
	allClusters = nil
	clusterMu.Unlock()
	if baseDir != "" && os.Getenv("VERIF_KEEPDIR") == "" {
		_ = os.RemoveAll(baseDir)
	}
}

// NewServer prepares (but does not start) an instance with a fresh data directory.
func NewServer(opt Options) *Server {
	inst := opt.Instance
	if v := os.Getenv("VERIF_INSTANCE"); v != "" {
		n, _ := strconv.Atoi(v)
		inst += n * 8
	}
	// 127.<20+prop>.<inst>.1 ; the per-process offset keeps concurrently running checks apart
	// (instances beyond 250 - several driver runs of one property at once, VERIF_INSTANCE_OFFSET - move to another second octet)
	ip := fmt.Sprintf("127.%d.%d.1", 20+opt.Prop+25*((inst/250)%9), inst%250+1)
	dir := filepath.Join(runBase(), fmt.Sprintf("srv%d", inst))
	_ = os.RemoveAll(dir)
	if err := os.MkdirAll(dir, 0o755); err != nil {
		Fatal("mkdir %s: %v", dir, err)
	}
	bin := filepath.Join(os.Getenv("VERIF_BIN"), "ts-server")
	if opt.Race {
		bin += "-race"
	}
	s := &Server{Opt: opt, IP: ip, Dir: dir, Bin: bin,
		HTTP: &http.Client{Timeout: 120 * time.Second, Transport: &http.Transport{MaxIdleConnsPerHost: 16, DisableCompression: true}}}
	s.writeConfig()
	allMu.Lock()
	allSrv = append(allSrv, s)
	allMu.Unlock()
	return s
}

func (s *Server) writeConfig() {
	repo := os.Getenv("VERIF_REPO")
	if repo == "" {
		repo = "/repo"
	}
	b, err := os.ReadFile(filepath.Join(repo, "config", "openGemini.singlenode.conf"))
	if err != nil {
		Fatal("read config template: %v", err)
	}
	c := strings.ReplaceAll(string(b), "\r\n", "\n")
	c = strings.ReplaceAll(c, "127.0.0.1", s.IP)
	c = strings.ReplaceAll(c, "/tmp/openGemini", s.Dir)
	c = strings.ReplaceAll(c, "store-enabled = true", "store-enabled = false")
	c = strings.ReplaceAll(c, "flight-enabled = true", "flight-enabled = false")
	c = regexp.MustCompile(`(?m)^\s*pushers = "http"`).ReplaceAllString(c, `  pushers = ""`)
	c = strings.ReplaceAll(c, "[hierarchical_storage]\n  enabled = true", "[hierarchical_storage]\n  enabled = false")
	k := s.Opt.Knobs
	add := func(section, line string) {
		hdr := "[" + section + "]\n"
		if i := strings.Index(c, "\n"+hdr); i >= 0 {
			c = c[:i+1+len(hdr)] + "  " + line + "\n" + c[i+1+len(hdr):]
		} else if strings.HasPrefix(c, hdr) {
			c = hdr + "  " + line + "\n" + c[len(hdr):]
		} else {
			c += "\n" + hdr + "  " + line + "\n"
		}
	}
	if v := k["max-rows-per-segment"]; v != "" {
		add("data", "max-rows-per-segment = "+v)
	}
	if v := k["ptnum-pernode"]; v != "" {
		add("meta", "ptnum-pernode = "+v)
	}
	if v := k["retention-check-interval"]; v != "" {
		add("retention", `check-interval = "`+v+`"`)
	}
	if v := k["auth-enabled"]; v != "" {
		add("http", "auth-enabled = "+v)
	}
	if v := k["write-cold-duration"]; v != "" {
		add("data.memtable", `write-cold-duration = "`+v+`"`)
	}
	for key, v := range k {
		if strings.HasPrefix(key, "raw:") { // raw:<section> -> line
			add(strings.TrimPrefix(key, "raw:"), v)
		}
	}
	if err := os.WriteFile(filepath.Join(s.Dir, "server.conf"), []byte(c), 0o644); err != nil {
		Fatal("write config: %v", err)
	}
}

func (s *Server) URL() string      { return "http://" + s.IP + ":8086" }
func (s *Server) CtlFile() string  { return filepath.Join(s.Dir, "fs.ctl") }
func (s *Server) TraceFile() string { return filepath.Join(s.Dir, "fs.trace") }
func (s *Server) StallFile() string { return filepath.Join(s.Dir, "fs.stall") }
func (s *Server) CompactCtl() string { return filepath.Join(s.Dir, "compact.ctl") }
func (s *Server) DataDir() string  { return filepath.Join(s.Dir, "data") }
func (s *Server) LogDir() string   { return filepath.Join(s.Dir, "logs") }

// Start launches the process. arm ("pattern,k[,torn]") arms a crash during start-up/recovery.
func (s *Server) Start(arm string) {
	s.mu.Lock()
	defer s.mu.Unlock()
	if s.cmd != nil {
		Fatal("server already running")
	}
	_ = os.Remove(s.CtlFile())
	_ = os.Remove(s.StallFile())
	_ = os.Remove(s.CompactCtl())
	_ = os.Remove(s.CompactCtl() + ".done")
	args := []string{"-config", filepath.Join(s.Dir, "server.conf")}
	var cmd *exec.Cmd
	if s.Opt.CPUs > 0 {
		cmd = exec.Command("taskset", append([]string{"-c", fmt.Sprintf("0-%d", s.Opt.CPUs-1), s.Bin}, args...)...)
	} else {
		cmd = exec.Command(s.Bin, args...)
	}
	cmd.Dir = s.Dir
	env := append(os.Environ(), "HOME="+s.Dir)
	if !s.Opt.NoHook {
		env = append(env, "VERIF_FS_CTL="+s.CtlFile(), "VERIF_FS_TRACE="+s.TraceFile(), "VERIF_COMPACT_CTL="+s.CompactCtl(), "VERIF_FS_STALL="+s.StallFile())
		if arm != "" {
			env = append(env, "VERIF_FS_ARM="+arm)
		}
	}
	env = append(env, s.Opt.Env...)
	cmd.Env = env
	s.started++
	out, err := os.OpenFile(filepath.Join(s.Dir, fmt.Sprintf("stdout-%d.log", s.started)), os.O_CREATE|os.O_WRONLY|os.O_TRUNC, 0o644)
	if err != nil {
		Fatal("open stdout log: %v", err)
	}
	cmd.Stdout = out
	cmd.Stderr = out
	cmd.SysProcAttr = &syscall.SysProcAttr{Setpgid: true, Pdeathsig: syscall.SIGKILL}
	if err := cmd.Start(); err != nil {
		Fatal("start %s: %v", s.Bin, err)
	}
	out.Close()
	s.cmd = cmd
	s.waitCh = make(chan struct{})
	go func(c *exec.Cmd, ch chan struct{}) {
		err := c.Wait()
		s.mu.Lock()
		s.exitErr = err
		s.mu.Unlock()
		close(ch)
	}(cmd, s.waitCh)
}

// Alive reports whether the process is still running.
func (s *Server) Alive() bool {
	s.mu.Lock()
	ch := s.waitCh
	s.mu.Unlock()
	if ch == nil {
		return false
	}
	select {
	case <-ch:
		return false
	default:
		return true
	}
}

// WaitExit waits until the process is gone (true) or the timeout passed (false).
func (s *Server) WaitExit(d time.Duration) bool {
	s.mu.Lock()
	ch := s.waitCh
	s.mu.Unlock()
	if ch == nil {
		return true
	}
	select {
	case <-ch:
		s.mu.Lock()
		s.cmd = nil
		s.mu.Unlock()
		return true
	case <-time.After(d):
		return false
	}
}

func (s *Server) killNoLock() {
	s.mu.Lock()
	cmd := s.cmd
	ch := s.waitCh
	s.mu.Unlock()
	if cmd == nil || cmd.Process == nil {
		return
	}
	_ = syscall.Kill(-cmd.Process.Pid, syscall.SIGKILL)
	_ = cmd.Process.Kill()
	if ch != nil {
		select {
		case <-ch:
		case <-time.After(10 * time.Second):
		}
	}
	s.mu.Lock()
	s.cmd = nil
	s.mu.Unlock()
}

// Kill sends SIGKILL and waits for the process to disappear.
func (s *Server) Kill() { s.killNoLock() }

// Term sends SIGTERM and waits up to d for a clean exit; returns false when it had to be killed.
func (s *Server) Term(d time.Duration) bool {
	s.mu.Lock()
	cmd := s.cmd
	s.mu.Unlock()
	if cmd == nil || cmd.Process == nil {
		return true
	}
	_ = cmd.Process.Signal(syscall.SIGTERM)
	if s.WaitExit(d) {
		return true
	}
	s.killNoLock()
	return false
}

// Destroy kills the server and removes its directory.
func (s *Server) Destroy() {
	s.killNoLock()
	if os.Getenv("VERIF_KEEPDIR") == "" {
		_ = os.RemoveAll(s.Dir)
	}
	allMu.Lock()
	for i, x := range allSrv {
		if x == s {
			allSrv = append(allSrv[:i], allSrv[i+1:]...)
			break
		}
	}
	allMu.Unlock()
}

// WaitReady polls /ping and then a trivial query until the server answers; false on timeout or process death.
func (s *Server) WaitReady(d time.Duration) bool {
	deadline := time.Now().Add(d)
	for time.Now().Before(deadline) {
		if !s.Alive() {
			return false
		}
		conn, err := net.DialTimeout("tcp", s.IP+":8086", 200*time.Millisecond)
		if err == nil {
			conn.Close()
			resp, err := s.HTTP.Get(s.URL() + "/ping")
			if err == nil {
				io.Copy(io.Discard, resp.Body)
				resp.Body.Close()
				if resp.StatusCode == 204 || resp.StatusCode == 200 {
					if r, err := s.Query("", "show databases", nil); err == nil && r.Err == "" {
						return true
					}
				}
			}
		}
		time.Sleep(50 * time.Millisecond)
	}
	return false
}

// MustStart starts and waits for readiness; a server that does not come up is a harness problem.
func (s *Server) MustStart() {
	s.Start("")
	if s.WaitReady(60 * time.Second) {
		return
	}
	// the first start of a fresh instance is not part of any property: one more attempt before giving up (a busy machine, a
	// port still held by a previous process) - callers use MustStart only for fresh instances, recoveries have their own waits
	first := s.TailLog(1200)
	s.Kill()
	time.Sleep(2 * time.Second)
	s.Start("")
	if !s.WaitReady(120 * time.Second) {
		Fatal("server %s did not become ready in two attempts: %s\n-- first attempt: %s", s.IP, s.TailLog(2000), first)
	}
}

func (s *Server) TailLog(n int) string {
	var sb strings.Builder
	files, _ := filepath.Glob(filepath.Join(s.Dir, "stdout-*.log"))
	sort.Strings(files)
	for _, f := range files {
		b, _ := os.ReadFile(f)
		if len(b) > n {
			b = b[len(b)-n:]
		}
		sb.WriteString("== " + filepath.Base(f) + "\n" + string(b) + "\n")
	}
	return sb.String()
}

// PanicInLogs scans the process' stdout/stderr for an unrecovered Go panic or fatal runtime error (what kills
// the process). Panics that the server recovers per query and writes to its error log are reported by
// RecoveredPanics instead (informational: the process keeps running).
func (s *Server) PanicInLogs() string {
	files, _ := filepath.Glob(filepath.Join(s.Dir, "stdout-*.log"))
	for _, f := range files {
		b, err := os.ReadFile(f)
		if err != nil {
			continue
		}
		for _, pat := range []string{"\npanic: ", "fatal error: ", "unexpected signal", "\ngoroutine 1 ["} {
			if i := bytes.Index(b, []byte(pat)); i >= 0 {
				end := i + 1500
				if end > len(b) {
					end = len(b)
				}
				return filepath.Base(f) + ": " + string(b[i:end])
			}
		}
	}
	return ""
}

// RecoveredPanics counts "panic" entries in the server's own log files.
func (s *Server) RecoveredPanics() int {
	n := 0
	lf, _ := filepath.Glob(filepath.Join(s.LogDir(), "*.log"))
	for _, f := range lf {
		b, err := os.ReadFile(f)
		if err != nil {
			continue
		}
		n += bytes.Count(b, []byte("runtime panic"))
	}
	return n
}

// ---------------------------------------------------------------- HTTP

// connFailed is called when a request failed at the transport level: if the process is dying, wait until
// its exit is observed so that Alive() is accurate for the caller.
func (s *Server) connFailed() {
	s.mu.Lock()
	ch := s.waitCh
	s.mu.Unlock()
	if ch == nil {
		return
	}
	select {
	case <-ch:
	case <-time.After(3 * time.Second):
	}
}

func (s *Server) auth(req *http.Request) {
	if s.User != "" {
		req.SetBasicAuth(s.User, s.Pass)
	}
}

// Write posts line protocol; returns the HTTP status (0 when the connection failed) and the body.
func (s *Server) Write(db, rp, precision, body string) (int, string) {
	q := url.Values{"db": {db}}
	if rp != "" {
		q.Set("rp", rp)
	}
	if precision != "" {
		q.Set("precision", precision)
	}
	req, _ := http.NewRequest("POST", s.URL()+"/write?"+q.Encode(), strings.NewReader(body))
	s.auth(req)
	resp, err := s.HTTP.Do(req)
	if err != nil {
		s.connFailed()
		return 0, err.Error()
	}
	defer resp.Body.Close()
	b, err := io.ReadAll(resp.Body)
	if err != nil {
		s.connFailed()
		return 0, err.Error()
	}
	return resp.StatusCode, string(b)
}

// Series is one series of a query result.
type Series struct {
	Name    string            `json:"name"`
	Tags    map[string]string `json:"tags"`
	Columns []string          `json:"columns"`
	Values  [][]any           `json:"values"`
}

type StmtResult struct {
	ID     int      `json:"statement_id"`
	Series []Series `json:"series"`
	Err    string   `json:"error"`
}

type QueryResult struct {
	Status  int
	Results []StmtResult `json:"results"`
	Err     string       `json:"error"`
	Raw     string
}

// Query runs an InfluxQL query (POST for everything: the server accepts both).
func (s *Server) Query(db, q string, params map[string]string) (*QueryResult, error) {
	v := url.Values{"q": {q}}
	if db != "" {
		v.Set("db", db)
	}
	if _, ok := params["epoch"]; !ok {
		v.Set("epoch", "ns")
	}
	for k, x := range params {
		v.Set(k, x)
	}
	req, _ := http.NewRequest("POST", s.URL()+"/query", strings.NewReader(v.Encode()))
	req.Header.Set("Content-Type", "application/x-www-form-urlencoded")
	s.auth(req)
	resp, err := s.HTTP.Do(req)
	if err != nil {
		s.connFailed()
		return nil, err
	}
	defer resp.Body.Close()
	b, err := io.ReadAll(resp.Body)
	if err != nil {
		s.connFailed()
		return nil, err
	}
	out := &QueryResult{Status: resp.StatusCode, Raw: string(b)}
	// chunked responses are a sequence of JSON documents: merge them
	dec := json.NewDecoder(bytes.NewReader(b))
	dec.UseNumber()
	for {
		var part QueryResult
		if err := dec.Decode(&part); err != nil {
			if err == io.EOF {
				break
			}
			return out, fmt.Errorf("bad JSON in response (status %d): %v: %.300s", resp.StatusCode, err, string(b))
		}
		if part.Err != "" {
			out.Err = part.Err
		}
		for _, r := range part.Results {
			merged := false
			for i := range out.Results {
				if out.Results[i].ID == r.ID {
					out.Results[i].Series = mergeSeries(out.Results[i].Series, r.Series)
					if r.Err != "" {
						out.Results[i].Err = r.Err
					}
					merged = true
				}
			}
			if !merged {
				out.Results = append(out.Results, r)
			}
		}
	}
	if len(out.Results) == 1 && out.Results[0].Err != "" && out.Err == "" {
		out.Err = out.Results[0].Err
	}
	return out, nil
}

func tagKey(m map[string]string) string {
	ks := make([]string, 0, len(m))
	for k := range m {
		ks = append(ks, k)
	}
	sort.Strings(ks)
	var sb strings.Builder
	for _, k := range ks {
		sb.WriteString(k + "=" + m[k] + ",")
	}
	return sb.String()
}

// mergeSeries appends chunk parts: a part continuing the last series (same name+tags+columns) extends it.
func mergeSeries(a, b []Series) []Series {
	for _, s := range b {
		if n := len(a); n > 0 && a[n-1].Name == s.Name && tagKey(a[n-1].Tags) == tagKey(s.Tags) && strings.Join(a[n-1].Columns, ",") == strings.Join(s.Columns, ",") {
			a[n-1].Values = append(a[n-1].Values, s.Values...)
			continue
		}
		a = append(a, s)
	}
	return a
}

// Ctrl calls /debug/ctrl.
func (s *Server) Ctrl(mod string, params map[string]string) (int, string) {
	v := url.Values{"mod": {mod}}
	for k, x := range params {
		v.Set(k, x)
	}
	req, _ := http.NewRequest("POST", s.URL()+"/debug/ctrl?"+v.Encode(), nil)
	s.auth(req)
	resp, err := s.HTTP.Do(req)
	if err != nil {
		s.connFailed()
		return 0, err.Error()
	}
	defer resp.Body.Close()
	b, err := io.ReadAll(resp.Body)
	if err != nil {
		s.connFailed()
		return 0, err.Error()
	}
	return resp.StatusCode, string(b)
}

// Flush forces a synchronous memtable flush of all shards.
func (s *Server) Flush() (int, string) { return s.Ctrl("flush", nil) }

// Reorg asks the H4 hook to run one pass (merge | compact | full | all) and waits until it is done.
// Returns false when the server died meanwhile or the pass did not finish in time.
func (s *Server) Reorg(cmd string, d time.Duration) bool {
	done := s.CompactCtl() + ".done"
	_ = os.Remove(done)
	tmp := s.CompactCtl() + ".tmp"
	_ = os.WriteFile(tmp, []byte(cmd), 0o644)
	_ = os.Rename(tmp, s.CompactCtl())
	deadline := time.Now().Add(d)
	for time.Now().Before(deadline) {
		if _, err := os.Stat(done); err == nil {
			_ = os.Remove(done)
			return true
		}
		if !s.Alive() {
			return false
		}
		time.Sleep(10 * time.Millisecond)
	}
	return false
}

// Arm arms a crash: the server kills itself right before the k-th file mutation whose path matches pattern
// (torn >= 0: the k-th mutation, if a write, is cut after torn bytes first).
func (s *Server) Arm(pattern string, k int, torn int) {
	line := fmt.Sprintf("%s,%d", pattern, k)
	if torn >= 0 {
		line += fmt.Sprintf(",%d", torn)
	}
	tmp := s.CtlFile() + ".tmp"
	_ = os.WriteFile(tmp, []byte(line), 0o644)
	_ = os.Rename(tmp, s.CtlFile())
}

// Stall makes every file mutation whose "op path" matches pattern sleep ms milliseconds first (ms <= 0: off).
func (s *Server) Stall(pattern string, ms int) {
	if ms <= 0 {
		_ = os.Remove(s.StallFile())
		return
	}
	tmp := s.StallFile() + ".tmp"
	_ = os.WriteFile(tmp, []byte(fmt.Sprintf("%s,%d", pattern, ms)), 0o644)
	_ = os.Rename(tmp, s.StallFile())
}

// Disarm removes a pending (not yet read) arm request.
func (s *Server) Disarm() { _ = os.Remove(s.CtlFile()) }

// TraceLen returns the number of lines in the mutation trace (a cheap position marker).
func (s *Server) Trace() []string {
	b, err := os.ReadFile(s.TraceFile())
	if err != nil {
		return nil
	}
	lines := strings.Split(strings.TrimRight(string(b), "\n"), "\n")
	if len(lines) == 1 && lines[0] == "" {
		return nil
	}
	return lines
}

// Files lists regular files below the data directory (relative paths, sorted).
func (s *Server) Files(sub string) []string {
	var out []string
	root := filepath.Join(s.DataDir(), sub)
	_ = filepath.Walk(root, func(p string, info os.FileInfo, err error) error {
		if err != nil || info == nil || info.IsDir() {
			return nil
		}
		rel, _ := filepath.Rel(s.DataDir(), p)
		out = append(out, rel)
		return nil
	})
	sort.Strings(out)
	return out
}

// MatchOpPath reports whether a trace line ("seq op path nbytes") matches an arm pattern (matched on "op path").
func MatchOpPath(pattern, traceLine string) bool {
	f := strings.SplitN(traceLine, " ", 2)
	if len(f) < 2 || strings.Contains(traceLine, "DIE-BEFORE") {
		return false
	}
	rest := f[1]
	if i := strings.LastIndex(rest, " "); i > 0 {
		rest = rest[:i]
	}
	re, err := regexp.Compile(pattern)
	return err == nil && re.MatchString(rest)
}
