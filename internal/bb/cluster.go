package bb

import (
	"fmt"
	"net/http"
	"os"
	"os/exec"
	"path/filepath"
	"strconv"
	"strings"
	"syscall"
	"time"
)

// Cluster is a 3 x ts-meta, 3 x ts-store, 1 x ts-sql deployment on three loopback addresses (default ports),
// rendered from config/openGemini.conf with ha-policy = "replication".
type Cluster struct {
	Prop  int
	IPs   [3]string
	Dir   string
	SQL   *Server // HTTP client view of the ts-sql node (Write / Query / ...); its process is managed here
	procs map[string]*exec.Cmd
	done  map[string]chan struct{}
	Knobs map[string]string
}

func NewCluster(prop int, knobs map[string]string) *Cluster {
	inst := 0
	if v := os.Getenv("VERIF_INSTANCE"); v != "" {
		n, _ := strconv.Atoi(v)
		inst = n
	}
	c := &Cluster{Prop: prop, procs: map[string]*exec.Cmd{}, done: map[string]chan struct{}{}, Knobs: knobs}
	for i := 0; i < 3; i++ {
		c.IPs[i] = fmt.Sprintf("127.%d.%d.%d", 20+prop+25*((inst/250)%9), inst%250+1, i+1)
	}
	c.Dir = filepath.Join(runBase(), fmt.Sprintf("cluster%d", inst))
	_ = os.RemoveAll(c.Dir)
	if err := os.MkdirAll(c.Dir, 0o755); err != nil {
		Fatal("mkdir %s: %v", c.Dir, err)
	}
	repo := os.Getenv("VERIF_REPO")
	if repo == "" {
		repo = "/repo"
	}
	b, err := os.ReadFile(filepath.Join(repo, "config", "openGemini.conf"))
	if err != nil {
		Fatal("read cluster config template: %v", err)
	}
	tmpl := strings.ReplaceAll(string(b), "\r\n", "\n")
	for i := 0; i < 3; i++ {
		cfg := tmpl
		for j := 0; j < 3; j++ {
			cfg = strings.ReplaceAll(cfg, fmt.Sprintf("{{meta_addr_%d}}", j+1), c.IPs[j])
		}
		cfg = strings.ReplaceAll(cfg, "{{addr}}", c.IPs[i])
		cfg = strings.ReplaceAll(cfg, "{{id}}", fmt.Sprint(i+1))
		cfg = strings.ReplaceAll(cfg, "/tmp/openGemini", filepath.Join(c.Dir, fmt.Sprintf("node%d", i+1)))
		cfg = strings.Replace(cfg, "[common]\n", "[common]\n  ha-policy = \"replication\"\n", 1)
		cfg = strings.ReplaceAll(cfg, "127.0.0.1:55285", c.IPs[i]+":55285")
		if v := knobs["ptnum-pernode"]; v != "" {
			cfg = strings.Replace(cfg, "[meta]\n", "[meta]\n  ptnum-pernode = "+v+"\n", 1)
		}
		cfg = strings.Replace(cfg, "pprof-enabled = true", "pprof-enabled = false", 1)
		if err := os.WriteFile(filepath.Join(c.Dir, fmt.Sprintf("node%d.conf", i+1)), []byte(cfg), 0o644); err != nil {
			Fatal("write config: %v", err)
		}
		_ = os.MkdirAll(filepath.Join(c.Dir, fmt.Sprintf("node%d", i+1), "logs", fmt.Sprint(i+1)), 0o755)
	}
	c.SQL = &Server{IP: c.IPs[0], Dir: c.Dir, HTTP: &http.Client{Timeout: 60 * time.Second, Transport: &http.Transport{MaxIdleConnsPerHost: 8, DisableCompression: true}}}
	clusterMu.Lock()
	allClusters = append(allClusters, c)
	clusterMu.Unlock()
	return c
}

func (c *Cluster) start(kind string, i int) {
	name := fmt.Sprintf("%s%d", kind, i+1)
	bin := filepath.Join(os.Getenv("VERIF_BIN"), "ts-"+kind)
	cmd := exec.Command(bin, "-config", filepath.Join(c.Dir, fmt.Sprintf("node%d.conf", i+1)))
	cmd.Dir = c.Dir
	cmd.Env = append(os.Environ(), "HOME="+filepath.Join(c.Dir, fmt.Sprintf("node%d", i+1)))
	out, err := os.OpenFile(filepath.Join(c.Dir, name+".out"), os.O_CREATE|os.O_WRONLY|os.O_APPEND, 0o644)
	if err != nil {
		Fatal("open log: %v", err)
	}
	cmd.Stdout, cmd.Stderr = out, out
	cmd.SysProcAttr = &syscall.SysProcAttr{Setpgid: true, Pdeathsig: syscall.SIGKILL}
	if err := cmd.Start(); err != nil {
		Fatal("start %s: %v", bin, err)
	}
	out.Close()
	ch := make(chan struct{})
	c.procs[name] = cmd
	c.done[name] = ch
	go func() { _ = cmd.Wait(); close(ch) }()
}

// Start brings the whole cluster up and waits until the SQL node answers.
func (c *Cluster) Start() {
	for i := 0; i < 3; i++ {
		c.start("meta", i)
	}
	time.Sleep(3 * time.Second)
	for i := 0; i < 3; i++ {
		c.start("store", i)
		time.Sleep(100 * time.Millisecond)
	}
	c.start("sql", 0)
	deadline := time.Now().Add(120 * time.Second)
	for time.Now().Before(deadline) {
		if r, err := c.SQL.Query("", "show databases", nil); err == nil && r.Err == "" {
			return
		}
		time.Sleep(300 * time.Millisecond)
	}
	Fatal("cluster did not come up: %s", c.Tail(1500))
}

func (c *Cluster) alive(name string) bool {
	ch := c.done[name]
	if ch == nil {
		return false
	}
	select {
	case <-ch:
		return false
	default:
		return true
	}
}

func (c *Cluster) StoreAlive(i int) bool { return c.alive(fmt.Sprintf("store%d", i+1)) }

func (c *Cluster) signal(name string, sig syscall.Signal) {
	if cmd := c.procs[name]; cmd != nil && cmd.Process != nil {
		_ = syscall.Kill(-cmd.Process.Pid, sig)
		_ = cmd.Process.Signal(sig)
	}
}

// KillStore sends SIGKILL to store i and waits until it is gone.
func (c *Cluster) KillStore(i int) {
	name := fmt.Sprintf("store%d", i+1)
	c.signal(name, syscall.SIGKILL)
	if ch := c.done[name]; ch != nil {
		select {
		case <-ch:
		case <-time.After(10 * time.Second):
		}
	}
}

func (c *Cluster) PauseStore(i int)  { c.signal(fmt.Sprintf("store%d", i+1), syscall.SIGSTOP) }
func (c *Cluster) ResumeStore(i int) { c.signal(fmt.Sprintf("store%d", i+1), syscall.SIGCONT) }
func (c *Cluster) StartStore(i int)  { c.start("store", i) }

func (c *Cluster) Tail(n int) string {
	var sb strings.Builder
	files, _ := filepath.Glob(filepath.Join(c.Dir, "*.out"))
	for _, f := range files {
		b, _ := os.ReadFile(f)
		if len(b) > n {
			b = b[len(b)-n:]
		}
		sb.WriteString("== " + filepath.Base(f) + "\n" + string(b) + "\n")
	}
	return sb.String()
}

// UnrecoveredPanic scans the processes' stdout/stderr for a Go panic that killed a process.
func (c *Cluster) UnrecoveredPanic() string {
	files, _ := filepath.Glob(filepath.Join(c.Dir, "*.out"))
	for _, f := range files {
		b, _ := os.ReadFile(f)
		s := string(b)
		for _, pat := range []string{"\npanic: ", "fatal error: "} {
			if i := strings.Index(s, pat); i >= 0 {
				end := i + 1500
				if end > len(s) {
					end = len(s)
				}
				return filepath.Base(f) + ": " + s[i:end]
			}
		}
	}
	return ""
}

func (c *Cluster) Destroy() {
	for name := range c.procs {
		c.signal(name, syscall.SIGCONT)
		c.signal(name, syscall.SIGKILL)
	}
	for _, ch := range c.done {
		select {
		case <-ch:
		case <-time.After(5 * time.Second):
		}
	}
	if os.Getenv("VERIF_KEEPDIR") == "" {
		_ = os.RemoveAll(c.Dir)
	}
}
