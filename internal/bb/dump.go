package bb

import (
	"encoding/json"
	"fmt"
	"strconv"
	"strings"
	"time"

	"verif/internal/model"
)

// ToValue converts a JSON cell into a typed value (kind known from the generator's schema).
func ToValue(x any, k model.Kind) (model.Value, error) {
	switch k {
	case model.Int:
		n, ok := x.(json.Number)
		if !ok {
			return model.Value{}, fmt.Errorf("int field holds %T %v", x, x)
		}
		i, err := strconv.ParseInt(n.String(), 10, 64)
		if err != nil {
			return model.Value{}, fmt.Errorf("int field holds %q", n.String())
		}
		return model.IntV(i), nil
	case model.Float:
		n, ok := x.(json.Number)
		if !ok {
			return model.Value{}, fmt.Errorf("float field holds %T %v", x, x)
		}
		f, err := strconv.ParseFloat(n.String(), 64)
		if err != nil {
			return model.Value{}, fmt.Errorf("float field holds %q", n.String())
		}
		return model.FloatV(f), nil
	case model.String:
		s, ok := x.(string)
		if !ok {
			return model.Value{}, fmt.Errorf("string field holds %T %v", x, x)
		}
		return model.StrV(s), nil
	default:
		b, ok := x.(bool)
		if !ok {
			return model.Value{}, fmt.Errorf("bool field holds %T %v", x, x)
		}
		return model.BoolV(b), nil
	}
}

func Quote(id string) string {
	return `"` + strings.NewReplacer(`\`, `\\`, `"`, `\"`).Replace(id) + `"`
}

// RowsOf converts `group by *` result series into observed contents. Duplicate (series,time) rows are an error.
func RowsOf(series []Series, kinds map[string]model.Kind) (model.Observed, error) {
	obs := model.Observed{}
	for _, se := range series {
		key := model.SeriesKeyOf(se.Name, se.Tags)
		if _, dup := obs[key]; dup {
			return nil, fmt.Errorf("series %s returned twice", key)
		}
		rows := map[int64]map[string]model.Value{}
		obs[key] = rows
		if len(se.Columns) == 0 || se.Columns[0] != "time" {
			return nil, fmt.Errorf("first column is not time: %v", se.Columns)
		}
		var prev int64
		for ri, vals := range se.Values {
			tn, ok := vals[0].(json.Number)
			if !ok {
				return nil, fmt.Errorf("time is %T", vals[0])
			}
			ts, err := strconv.ParseInt(tn.String(), 10, 64)
			if err != nil {
				return nil, err
			}
			if _, dup := rows[ts]; dup {
				return nil, fmt.Errorf("DUPLICATE-ROW series %s time %d", key, ts)
			}
			if ri > 0 && ts < prev {
				return nil, fmt.Errorf("UNSORTED series %s: time %d after %d", key, ts, prev)
			}
			prev = ts
			row := map[string]model.Value{}
			for ci := 1; ci < len(se.Columns); ci++ {
				if vals[ci] == nil {
					continue
				}
				k, ok := kinds[se.Columns[ci]]
				if !ok {
					return nil, fmt.Errorf("INVENTED column %q", se.Columns[ci])
				}
				v, err := ToValue(vals[ci], k)
				if err != nil {
					return nil, fmt.Errorf("series %s time %d column %s: %v", key, ts, se.Columns[ci], err)
				}
				row[se.Columns[ci]] = v
			}
			if len(row) > 0 {
				rows[ts] = row
			}
		}
	}
	return obs, nil
}

// Dump reads the whole measurement. A missing measurement is an empty dump.
func (s *Server) Dump(db, mst string, kinds map[string]model.Kind) (model.Observed, error) {
	r, err := s.Query(db, "select * from "+Quote(mst)+" group by *", nil)
	if err != nil {
		return nil, err
	}
	if r.Err != "" {
		if strings.Contains(r.Err, "measurement not found") || strings.Contains(r.Err, "database not found") {
			return model.Observed{}, nil
		}
		return nil, fmt.Errorf("query error: %s", r.Err)
	}
	if len(r.Results) == 0 {
		return model.Observed{}, nil
	}
	return RowsOf(r.Results[0].Series, kinds)
}

// ShowMeasurements lists measurement names of a database.
func (s *Server) ShowMeasurements(db string) ([]string, error) {
	r, err := s.Query(db, "show measurements", nil)
	if err != nil {
		return nil, err
	}
	if r.Err != "" {
		return nil, fmt.Errorf("%s", r.Err)
	}
	var out []string
	for _, res := range r.Results {
		for _, se := range res.Series {
			for _, v := range se.Values {
				if len(v) > 0 {
					if n, ok := v[0].(string); ok {
						out = append(out, n)
					}
				}
			}
		}
	}
	return out, nil
}

// SeriesCount returns the number of series keys `show series` lists for a measurement.
func (s *Server) ShowSeries(db, mst string) (map[string]bool, error) {
	q := "show series"
	if mst != "" {
		q += " from " + Quote(mst)
	}
	r, err := s.Query(db, q, nil)
	if err != nil {
		return nil, err
	}
	if r.Err != "" {
		return nil, fmt.Errorf("%s", r.Err)
	}
	out := map[string]bool{}
	for _, res := range r.Results {
		for _, se := range res.Series {
			for _, v := range se.Values {
				if len(v) > 0 {
					if n, ok := v[0].(string); ok {
						out[n] = true
					}
				}
			}
		}
	}
	return out, nil
}

// AwaitSeries polls until every wanted series key (mst,k=v,... as printed by show series) is listed,
// or the timeout passes. Returns the missing ones.
func (s *Server) AwaitSeries(db string, want []string, d time.Duration) []string {
	deadline := time.Now().Add(d)
	for {
		have, err := s.ShowSeries(db, "")
		var missing []string
		if err == nil {
			for _, w := range want {
				if !have[w] {
					missing = append(missing, w)
				}
			}
			if len(missing) == 0 {
				return nil
			}
		}
		if time.Now().After(deadline) || (err != nil && !s.Alive()) { // (a dead server will not answer: the caller handles that)
			if err != nil {
				return []string{"show series failed: " + err.Error()}
			}
			return missing
		}
		time.Sleep(100 * time.Millisecond)
	}
}

// MustExec runs a statement that has to succeed (harness set-up); a failure is a harness problem.
func (s *Server) MustExec(db, q string) {
	deadline := time.Now().Add(30 * time.Second)
	for {
		r, err := s.Query(db, q, nil)
		if err == nil && r.Err == "" {
			return
		}
		if time.Now().After(deadline) {
			msg := ""
			if err != nil {
				msg = err.Error()
			} else {
				msg = r.Err
			}
			Fatal("statement %q failed: %s", q, msg)
		}
		time.Sleep(200 * time.Millisecond)
	}
}
