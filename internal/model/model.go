// Package model is the reference model of the database contents: a last-write-wins map keyed by
// (series, timestamp, field), with sets of admissible values for operations whose acknowledgement
// was lost with the server.
package model

import (
	"encoding/json"
	"fmt"
	"math"
	"sort"
	"strconv"
	"strings"
)

type Kind byte

const (
	Int    Kind = 'i'
	Float  Kind = 'f'
	String Kind = 's'
	Bool   Kind = 'b'
)

type Value struct {
	K Kind
	I int64
	F float64
	S string
	B bool
}

func IntV(i int64) Value     { return Value{K: Int, I: i} }
func FloatV(f float64) Value { return Value{K: Float, F: f} }
func StrV(s string) Value    { return Value{K: String, S: s} }
func BoolV(b bool) Value     { return Value{K: Bool, B: b} }

func (v Value) Equal(o Value) bool {
	if v.K != o.K {
		return false
	}
	switch v.K {
	case Int:
		return v.I == o.I
	case Float:
		return v.F == o.F || (math.IsNaN(v.F) && math.IsNaN(o.F))
	case String:
		return v.S == o.S
	default:
		return v.B == o.B
	}
}

func (v Value) String() string {
	switch v.K {
	case Int:
		return strconv.FormatInt(v.I, 10) + "i"
	case Float:
		return strconv.FormatFloat(v.F, 'g', -1, 64)
	case String:
		return strconv.Quote(v.S)
	default:
		return strconv.FormatBool(v.B)
	}
}

func (v Value) MarshalJSON() ([]byte, error) { return json.Marshal(v.String()) }

// Num returns the numeric view of an int/float value.
func (v Value) Num() float64 {
	if v.K == Int {
		return float64(v.I)
	}
	return v.F
}

// Point is one row of a write request.
type Point struct {
	Mst    string
	Tags   map[string]string
	Time   int64
	Fields map[string]Value
}

func SeriesKeyOf(mst string, tags map[string]string) string {
	ks := make([]string, 0, len(tags))
	for k, v := range tags {
		if v == "" {
			continue // an empty tag value is no tag
		}
		ks = append(ks, k)
	}
	sort.Strings(ks)
	var sb strings.Builder
	sb.WriteString(mst)
	for _, k := range ks {
		sb.WriteString("," + k + "=" + tags[k])
	}
	return sb.String()
}

// ---- line protocol rendering (documented escaping rules)

var mstEsc = strings.NewReplacer(`,`, `\,`, ` `, `\ `)
var tagEsc = strings.NewReplacer(`,`, `\,`, ` `, `\ `, `=`, `\=`)
var strEsc = strings.NewReplacer(`\`, `\\`, `"`, `\"`)

func (p Point) Line() string {
	var sb strings.Builder
	sb.WriteString(mstEsc.Replace(p.Mst))
	ks := make([]string, 0, len(p.Tags))
	for k := range p.Tags {
		ks = append(ks, k)
	}
	sort.Strings(ks)
	for _, k := range ks {
		sb.WriteString("," + tagEsc.Replace(k) + "=" + tagEsc.Replace(p.Tags[k]))
	}
	sb.WriteString(" ")
	fs := make([]string, 0, len(p.Fields))
	for k := range p.Fields {
		fs = append(fs, k)
	}
	sort.Strings(fs)
	for i, k := range fs {
		if i > 0 {
			sb.WriteString(",")
		}
		sb.WriteString(tagEsc.Replace(k) + "=")
		v := p.Fields[k]
		switch v.K {
		case Int:
			sb.WriteString(strconv.FormatInt(v.I, 10) + "i")
		case Float:
			sb.WriteString(strconv.FormatFloat(v.F, 'f', -1, 64))
		case String:
			sb.WriteString(`"` + strEsc.Replace(v.S) + `"`)
		default:
			sb.WriteString(strconv.FormatBool(v.B))
		}
	}
	sb.WriteString(" " + strconv.FormatInt(p.Time, 10))
	return sb.String()
}

func Lines(ps []Point) string {
	ls := make([]string, len(ps))
	for i, p := range ps {
		ls[i] = p.Line()
	}
	return strings.Join(ls, "\n")
}

// ---- store

// Cell holds the admissible values of one (series, time, field).
type Cell struct {
	Alts      []Value
	MayAbsent bool // admissible that the cell does not exist
}

func (c *Cell) admits(v Value) bool {
	for _, a := range c.Alts {
		if a.Equal(v) {
			return true
		}
	}
	return false
}

type SeriesData struct {
	Mst  string
	Tags map[string]string
	Rows map[int64]map[string]*Cell
}

type Store struct {
	Series map[string]*SeriesData
	// Dropped measurements whose drop was acknowledged (must not come back) or is uncertain.
	DroppedMst map[string]bool
}

func NewStore() *Store {
	return &Store{Series: map[string]*SeriesData{}, DroppedMst: map[string]bool{}}
}

func cleanTags(t map[string]string) map[string]string {
	o := map[string]string{}
	for k, v := range t {
		if v != "" {
			o[k] = v
		}
	}
	return o
}

// Apply records a write. acked=false: the request's acknowledgement was lost, every cell it touches may
// hold the old or the new value.
func (s *Store) Apply(ps []Point, acked bool) {
	for _, p := range ps {
		key := SeriesKeyOf(p.Mst, p.Tags)
		sd := s.Series[key]
		if sd == nil {
			sd = &SeriesData{Mst: p.Mst, Tags: cleanTags(p.Tags), Rows: map[int64]map[string]*Cell{}}
			s.Series[key] = sd
		}
		row := sd.Rows[p.Time]
		if row == nil {
			row = map[string]*Cell{}
			sd.Rows[p.Time] = row
		}
		for f, v := range p.Fields {
			c := row[f]
			if acked {
				row[f] = &Cell{Alts: []Value{v}}
				continue
			}
			if c == nil {
				row[f] = &Cell{Alts: []Value{v}, MayAbsent: true}
			} else if !c.admits(v) {
				c.Alts = append(c.Alts, v)
			}
		}
	}
}

// DropMeasurement removes a measurement (acked) or marks all of it as possibly absent (unacked).
func (s *Store) DropMeasurement(mst string, acked bool) {
	for k, sd := range s.Series {
		if sd.Mst != mst {
			continue
		}
		if acked {
			delete(s.Series, k)
			continue
		}
		for _, row := range sd.Rows {
			for _, c := range row {
				c.MayAbsent = true
			}
		}
	}
}

// Measurements returns the measurements that must exist (have a definitely present cell) and those that may.
func (s *Store) Measurements() (must, may map[string]bool) {
	must, may = map[string]bool{}, map[string]bool{}
	for _, sd := range s.Series {
		for _, row := range sd.Rows {
			for _, c := range row {
				may[sd.Mst] = true
				if !c.MayAbsent {
					must[sd.Mst] = true
				}
			}
		}
	}
	return
}

// Observed contents: series key -> time -> field -> value.
type Observed map[string]map[int64]map[string]Value

// Compare returns the differences between an observed dump and the model (empty = equal).
// Restricted to measurement mst when mst != "".
func (s *Store) Compare(obs Observed, mst string) []string {
	var diffs []string
	add := func(format string, a ...any) {
		if len(diffs) < 12 {
			diffs = append(diffs, fmt.Sprintf(format, a...))
		}
	}
	for key, sd := range s.Series {
		if mst != "" && sd.Mst != mst {
			continue
		}
		orows := obs[key]
		for t, row := range sd.Rows {
			orow := orows[t]
			for f, c := range row {
				ov, ok := orow[f]
				if !ok {
					if !c.MayAbsent {
						add("LOST %s time=%d field=%s want %v", key, t, f, c.Alts)
					}
					continue
				}
				if !c.admits(ov) {
					add("WRONG-VALUE %s time=%d field=%s got %v admissible %v", key, t, f, ov, c.Alts)
				}
			}
		}
	}
	for key, orows := range obs {
		sd := s.Series[key]
		if sd == nil {
			if mst == "" || strings.HasPrefix(key, mst+",") || key == mst {
				add("INVENTED series %s (%d rows)", key, len(orows))
			}
			continue
		}
		for t, orow := range orows {
			row := sd.Rows[t]
			for f, ov := range orow {
				if row == nil || row[f] == nil {
					add("INVENTED %s time=%d field=%s value %v", key, t, f, ov)
				}
			}
		}
	}
	sort.Strings(diffs)
	return diffs
}

// Definite returns the contents when no cell is uncertain (panics otherwise: callers that never lose
// acknowledgements use it as the logical contents).
func (s *Store) Definite() Observed {
	o := Observed{}
	for key, sd := range s.Series {
		for t, row := range sd.Rows {
			for f, c := range row {
				if c.MayAbsent || len(c.Alts) != 1 {
					panic("model: uncertain cell in Definite()")
				}
				if o[key] == nil {
					o[key] = map[int64]map[string]Value{}
				}
				if o[key][t] == nil {
					o[key][t] = map[string]Value{}
				}
				o[key][t][f] = c.Alts[0]
			}
		}
	}
	return o
}

// Collapse makes the observed state the definite state (after a crash the survivors are known).
func (s *Store) Collapse(obs Observed, mst string) {
	for key, sd := range s.Series {
		if mst != "" && sd.Mst != mst {
			continue
		}
		for t, row := range sd.Rows {
			for f, c := range row {
				if !c.MayAbsent && len(c.Alts) == 1 {
					continue
				}
				ov, ok := obs[key][t][f]
				if !ok {
					delete(row, f)
					continue
				}
				row[f] = &Cell{Alts: []Value{ov}}
			}
			if len(row) == 0 {
				delete(sd.Rows, t)
			}
		}
		if len(sd.Rows) == 0 {
			delete(s.Series, key)
		}
	}
}
