// Package ev collects per-process statistics of a generated campaign (cases, classes,
// non-trivial fingerprints, samples) and writes failing cases as replay files.
// The driver (vcheck.py) merges the per-process files into evidence/<id>.json.
package ev

import (
	"bytes"
	"crypto/sha256"
	"encoding/hex"
	"encoding/json"
	"fmt"
	"os"
	"path/filepath"
	"runtime/debug"
	"sort"
	"sync"
	"testing"

	"pgregory.net/rapid"
)

const maxSamples = 6
const maxFingerprints = 200000

type stats struct {
	Evaluations int            `json:"evaluations"`
	Classes     map[string]int `json:"classes"`
	Excluded    map[string]int `json:"excluded"`
	Nontrivial  []string       `json:"nontrivial"`
	Samples     []any          `json:"samples"`
	Notes       map[string]any `json:"notes,omitempty"`
}

var (
	mu     sync.Mutex
	st     = map[string]*stats{} // per campaign
	ntSets = map[string]map[string]struct{}{}
)

func get(campaign string) *stats {
	s := st[campaign]
	if s == nil {
		s = &stats{Classes: map[string]int{}, Excluded: map[string]int{}, Notes: map[string]any{}}
		st[campaign] = s
		ntSets[campaign] = map[string]struct{}{}
	}
	return s
}

// Case is the record of one generated case.
type Case struct {
	campaign string
	classes  []string
	excluded []string
	nt       string
	sample   any
	ops      []any
	failed   bool
}

// Class marks the case as belonging to a class (counted once per case).
func (c *Case) Class(name string) {
	for _, x := range c.classes {
		if x == name {
			return
		}
	}
	c.classes = append(c.classes, name)
}

// Excluded counts an input that the generator left out by construction (known finding class).
func (c *Case) Excluded(name string) { c.excluded = append(c.excluded, name) }

// Nontrivial marks the case as non-trivial; key identifies it for the distinct count.
func (c *Case) Nontrivial(key any) { c.nt = Hash(key) }

// Sample sets a human-readable rendering of the case (kept for the first few cases).
func (c *Case) Sample(v any) { c.sample = v }

// Op appends an executed operation to the case record (used as the replay on failure).
func (c *Case) Op(v any) { c.ops = append(c.ops, v) }
func (c *Case) Ops() []any { return c.ops }

func Hash(v any) string {
	b, err := json.Marshal(v)
	if err != nil {
		b = []byte(fmt.Sprintf("%#v", v))
	}
	h := sha256.Sum256(b)
	return hex.EncodeToString(h[:8])
}

func (c *Case) commit() {
	mu.Lock()
	defer mu.Unlock()
	s := get(c.campaign)
	s.Evaluations++
	for _, k := range c.classes {
		s.Classes[k]++
	}
	for _, k := range c.excluded {
		s.Excluded[k]++
	}
	if c.nt != "" {
		set := ntSets[c.campaign]
		if _, ok := set[c.nt]; !ok && len(set) < maxFingerprints {
			set[c.nt] = struct{}{}
			if len(s.Samples) < maxSamples && c.sample != nil {
				s.Samples = append(s.Samples, c.sample)
			}
		}
	}
}

// Note stores a free-form value in the campaign statistics.
func Note(campaign, key string, v any) {
	mu.Lock()
	defer mu.Unlock()
	get(campaign).Notes[key] = v
}

// AddExcluded counts excluded inputs outside a case.
func AddExcluded(campaign, name string, n int) {
	mu.Lock()
	defer mu.Unlock()
	get(campaign).Excluded[name] += n
}

// Failure is the content of a replay file.
type Failure struct {
	Property string `json:"property"`
	Campaign string `json:"campaign"`
	Message  string `json:"message"`
	Case     any    `json:"case,omitempty"`
	Ops      []any  `json:"ops,omitempty"`
	Stack    string `json:"stack,omitempty"`
}

func writeFailure(f Failure) string {
	dir := os.Getenv("VERIF_FAILDIR")
	if dir == "" {
		dir = "failures"
	}
	_ = os.MkdirAll(dir, 0o755)
	p := filepath.Join(dir, fmt.Sprintf("%s-%s-%d.json", f.Property, f.Campaign, os.Getpid()))
	b, _ := json.MarshalIndent(f, "", " ")
	_ = os.WriteFile(p, b, 0o644)
	return p
}

// Failf records the case as a replay file and fails the rapid test.
func (c *Case) Failf(t *rapid.T, prop string, caseDesc any, format string, args ...any) {
	msg := fmt.Sprintf(format, args...)
	c.failed = true
	writeFailure(Failure{Property: prop, Campaign: c.campaign, Message: msg, Case: caseDesc, Ops: c.ops})
	t.Fatalf("%s", msg)
}

// Prop wraps a rapid property: statistics are committed when the case completes, a panic in
// the code under test is recorded as a failing case.
func Prop(prop, campaign string, body func(t *rapid.T, c *Case)) func(t *rapid.T) {
	return func(t *rapid.T) {
		c := &Case{campaign: campaign}
		defer func() {
			if r := recover(); r != nil {
				kind := fmt.Sprintf("%T", r)
				if !c.failed && kind == "rapid.stopTest" {
					writeFailure(Failure{Property: prop, Campaign: campaign, Message: fmt.Sprint(r), Case: c.sample, Ops: c.ops})
				} else if !c.failed && kind != "rapid.invalidData" {
					writeFailure(Failure{Property: prop, Campaign: campaign, Message: fmt.Sprintf("panic: %v", r), Case: c.sample, Ops: c.ops, Stack: string(debug.Stack())})
				}
				panic(r)
			}
			c.commit()
		}()
		body(t, c)
	}
}


// Plain (non-rapid) case helpers for enumerations and replays.
func Begin(campaign string) *Case { return &Case{campaign: campaign} }
func (c *Case) Done()             { c.commit() }
func (c *Case) FailTB(t testing.TB, prop string, caseDesc any, format string, args ...any) {
	msg := fmt.Sprintf(format, args...)
	c.failed = true
	writeFailure(Failure{Property: prop, Campaign: c.campaign, Message: msg, Case: caseDesc, Ops: c.ops})
	t.Fatalf("%s", msg)
}

// Flush writes the statistics of this process to $VERIF_STATS.
func Flush() {
	p := os.Getenv("VERIF_STATS")
	if p == "" {
		return
	}
	mu.Lock()
	defer mu.Unlock()
	for k, s := range st {
		s.Nontrivial = s.Nontrivial[:0]
		for h := range ntSets[k] {
			s.Nontrivial = append(s.Nontrivial, h)
		}
		sort.Strings(s.Nontrivial)
	}
	b, _ := json.Marshal(st)
	_ = os.WriteFile(p, b, 0o644)
}

// Main is the TestMain body shared by all property packages.
func Main(m *testing.M) {
	code := m.Run()
	Flush()
	os.Exit(code)
}

// Tier reports the tier the driver asked for.
func Tier() string {
	if os.Getenv("VERIF_TIER") == "thorough" {
		return "thorough"
	}
	return "quick"
}

// ReplayResult is what TestReplay reports per replay file.
type ReplayResult struct {
	OK           bool   `json:"ok"`
	Inconclusive bool   `json:"inconclusive,omitempty"`
	Msg          string `json:"msg,omitempty"`
}

// RunReplays re-executes every file listed in $VERIF_REPLAY_FILES through fn (which returns nil
// when the property holds on that case) and writes the outcome map to $VERIF_REPLAY_OUT.
func RunReplays(fn func(raw json.RawMessage, f Failure) error) {
	files := os.Getenv("VERIF_REPLAY_FILES")
	out := os.Getenv("VERIF_REPLAY_OUT")
	if files == "" || out == "" {
		return
	}
	res := map[string]ReplayResult{}
	for _, p := range splitLines(files) {
		b, err := os.ReadFile(p)
		if err != nil {
			res[p] = ReplayResult{Inconclusive: true, Msg: err.Error()}
			continue
		}
		var f Failure
		var raw struct {
			Case json.RawMessage `json:"case"`
		}
		dec := json.NewDecoder(bytes.NewReader(b))
		dec.UseNumber() // op lists are re-marshalled by the packages: keep int64 values exact
		if err := dec.Decode(&f); err != nil {
			res[p] = ReplayResult{Inconclusive: true, Msg: err.Error()}
			continue
		}
		_ = json.Unmarshal(b, &raw)
		func() {
			defer func() {
				if r := recover(); r != nil {
					res[p] = ReplayResult{OK: false, Msg: fmt.Sprintf("panic: %v", r)}
				}
			}()
			if err := fn(raw.Case, f); err != nil {
				if _, ok := err.(InconclusiveError); ok {
					res[p] = ReplayResult{Inconclusive: true, Msg: err.Error()}
				} else {
					res[p] = ReplayResult{OK: false, Msg: err.Error()}
				}
			} else {
				res[p] = ReplayResult{OK: true}
			}
		}()
	}
	b, _ := json.MarshalIndent(res, "", " ")
	_ = os.WriteFile(out, b, 0o644)
}

type InconclusiveError string

func (e InconclusiveError) Error() string { return string(e) }

func splitLines(s string) []string {
	var out []string
	cur := ""
	for _, r := range s {
		if r == '\n' {
			if cur != "" {
				out = append(out, cur)
			}
			cur = ""
		} else {
			cur += string(r)
		}
	}
	if cur != "" {
		out = append(out, cur)
	}
	return out
}
