# Campaign table of the driver: per property the test package, the sub-campaigns with their
# budgets per tier (case counts, never per-case time limits), and the evidence texts.
def B(checks, procs=1, timeout=900, **kw):
    d = {"checks": checks, "procs": procs, "timeout": timeout}
    d.update(kw)
    return d

CAMPAIGNS = {}

CAMPAIGNS["C07"] = {
    "pkg": "props/c07", "level": "exploration",
    "rule": ("rapid shape generators per column type (constant, constant delta, small/large deltas, int64 extremes; floats: same, runs, "
             "few decimals, integers, NaN payloads, +-Inf, -0, subnormals; strings: empty, repetitive, incompressible, long) -> encode -> decode "
             "must be bit-identical; a case is non-trivial when it has >= 2 values; distinct = hash of (shape, encoder mode byte, values)"),
    "assumptions": ["exported codec entry points are the ones the engine calls (CoderContext reuse as in the column builder)"],
    "campaigns": [
        {"name": "int_block", "run": "^TestIntBlock$", "quick": B(3000, 2), "thorough": B(60000, 3, 3000)},
        {"name": "time_block", "run": "^TestTimeBlock$", "quick": B(3000, 2), "thorough": B(60000, 3, 3000)},
        {"name": "float_block", "run": "^TestFloatBlock$", "quick": B(3000, 2), "thorough": B(60000, 3, 3000)},
        {"name": "bool_block", "run": "^TestBoolBlock$", "quick": B(2000, 1), "thorough": B(30000, 1, 3000)},
        {"name": "string_block", "run": "^TestStringBlock$", "quick": B(2000, 2), "thorough": B(30000, 3, 3000)},
    ],
}
