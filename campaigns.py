# Campaign table of the driver, assembled from props/<pkg>/campaign.py (SPEC = budgets per tier as case
# counts, evidence rule text; META = MANIFEST texts). One property per package.
import glob, importlib.util, os, sys
ROOT = os.path.dirname(os.path.abspath(__file__))
sys.path.insert(0, ROOT)
CAMPAIGNS = {}
METAS = {}
for f in sorted(glob.glob(os.path.join(ROOT, "props", "c*", "campaign.py"))):
    pid = os.path.basename(os.path.dirname(f)).upper()
    spec = importlib.util.spec_from_file_location("campaign_" + pid, f)
    m = importlib.util.module_from_spec(spec)
    spec.loader.exec_module(m)
    CAMPAIGNS[pid] = m.SPEC
    METAS[pid] = m.META
