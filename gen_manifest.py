#!/usr/bin/env python3
"""Regenerates MANIFEST.json from campaigns.py (claims) + manifest_meta.py (texts)."""
import json, os, sys
ROOT = os.path.dirname(os.path.abspath(__file__))
sys.path.insert(0, ROOT)
from campaigns import CAMPAIGNS, METAS as META
from manifest_meta import NOT_APPLICABLE, HOOK_COMMITS, NOTES, READY

base = json.load(open("/root/.vp/BASELINE.json")) if os.path.exists("/root/.vp/BASELINE.json") else {"cmd": ""}
checks = []
for pid in sorted(CAMPAIGNS):
    if pid not in META or pid not in READY:
        continue
    m = META[pid]
    checks.append({
        "property_id": pid,
        "quick_cmd": "python3 vcheck.py run %s --tier quick" % pid,
        "thorough_cmd": "python3 vcheck.py run %s --tier thorough" % pid,
        "evidence_file": "/verif/evidence/%s.json" % pid,
        "replay_cmd_template": "python3 vcheck.py replay {path}",
        "engine": m["engine"],
        "level_claimed": {"category": CAMPAIGNS[pid]["level"], "text": m["text"], "design_ref": "DESIGN.md section 3, " + pid},
        "level_note": m["note"],
        "technique": m["technique"],
    })
man = {
    "version": 1,
    "setup_cmd": "python3 vcheck.py setup",
    "hooks": {
        "guard": "verif (Go build tag)",
        "enable": "go build/test -tags verif (done by vcheck.py for the server binaries and every property test binary)",
        "baseline_off_cmd": base.get("cmd", ""),
        "source_commits": HOOK_COMMITS,
        "add_only": True,
    },
    "engines": [
        {"name": "lib-rapid", "path": "props/", "serves_properties": sorted(p for p in META if p in READY and (META[p]["engine"] == "lib-rapid" or "lib-rapid" in META[p].get("also", []))),
         "kind_free_text": "in-process rapid properties (generated inputs / state machines) on exported library entry points with explicit oracles"},
        {"name": "bb-server", "path": "internal/bb", "serves_properties": sorted(p for p in META if p in READY and (META[p]["engine"] == "bb-server" or "bb-server" in META[p].get("also", []))),
         "kind_free_text": "rapid state machines driving the real ts-server binary (built with -tags verif) over HTTP, with a last-write-wins model / reference evaluator as oracle and generated crash points through the fileops hook"},
    ],
    "checks": checks,
    "notes": NOTES,
    "not_applicable": [{"property_id": p, "reason": r} for p, r in sorted(NOT_APPLICABLE.items()) if p not in READY],
}
json.dump(man, open(os.path.join(ROOT, "MANIFEST.json"), "w"), indent=1)
print("MANIFEST.json: %d checks, %d not_applicable" % (len(checks), len(man["not_applicable"])))
